package main

import (
	"go/token"

	"golang.org/x/tools/go/ssa"
)

func init() {
	register(&property{
		ID: "C06",
		Explanation: "A narrow claim: byte-for-byte equality of the pipe over all write/read size sequences is a value property and is NOT decided. Decided are structural necessary conditions on every path: (1) every reader entry point that takes a size establishes size >= 1 (or returns) before it touches the front slice or waits; (2) Peek consumes nothing — its transitive body neither advances a read cursor outside bufferSlice.peek's save/restore pair, nor unlinks a slice, nor changes Len, and bufferSlice.peek restores the cursor on every path; " +
			"(3) Len bookkeeping is paired with consumption/production: on every successful path of each consuming entry point the length is decreased exactly once by the amount that bounded the consumption, on every path of each producing entry point it is increased exactly once, and nothing else writes it (except the reset in clean); (4) the slice cursors are only written by the slice's own methods. " +
			"NOT decided: slice-boundary arithmetic (fast/slow path cut-offs, Reserve's skip-to-next-slice, empty-slice unlinking), fallback vs shared-memory equivalence.",
		RuleText: "R06.1 dominating size guard per front()/readMore use in sized reader entry points; R06.2 effect census over Peek's transitive body + must-pass-through of the cursor restore; R06.3 per success return: exactly one length adjustment, with the operand's provenance; census of every store to linkedBuffer.len; R06.4 census of stores to bufferSlice.readIndex/writeIndex; R06.5 escape analysis of every alias of a wire handler's buffer parameter (through slices, phis and local callees).",
		Run:      runC06,
	})
}

func runC06(p *P, r *R) {
	// ---- R06.1
	sized := []string{"ReadBytes", "ReadString", "Peek", "Discard", "read"}
	n1 := 0
	for _, name := range sized {
		f := p.fn("(*linkedBuffer)." + name)
		if f == nil {
			r.fail("R06.1", "anchor (*linkedBuffer)."+name, "", "reader entry point not found")
			continue
		}
		r.Scope[p.fname(f)] = true
		// the size: the int parameter, or len() of the []byte parameter
		isSize := func(v ssa.Value) bool {
			if prm, ok := v.(*ssa.Parameter); ok && isInteger(prm.Type()) {
				return true
			}
			if c, ok := v.(*ssa.Call); ok {
				if b, ok := c.Call.Value.(*ssa.Builtin); ok && b.Name() == "len" {
					_, isParam := c.Call.Args[0].(*ssa.Parameter)
					return isParam
				}
			}
			return false
		}
		isZero := func(v ssa.Value) bool { c, ok := constInt(v); return ok && c == 0 }
		uses := findInstrs(f, p.mCall("(*sliceList).front", "(*Stream).readMore", "(*linkedBuffer).readNextSlice"))
		for _, u := range uses {
			n1++
			ok := false
			for _, fct := range factsAt(u.Block()) {
				if rel := relOn(fct.Cond, fct.Truth, isSize, isZero); rel == ">" {
					ok = true
				}
			}
			r.ob("R06.1", p.fname(f)+": the front slice is touched (or data awaited) only after size >= 1 was established", p.ipos(u), ok, true,
				"siblings agree: a non-positive size returns at once; without the guard size 0 dereferences a nil front slice and a negative size moves the cursor backwards")
		}
	}
	r.count("R06.1", "guarded uses in sized reader entry points", n1, 10)

	// ---- R06.2 Peek purity
	pk := p.fn("(*linkedBuffer).Peek")
	bsPeek := p.fn("(*bufferSlice).peek")
	if pk == nil || bsPeek == nil {
		r.fail("R06.2", "anchors (*linkedBuffer).Peek / (*bufferSlice).peek", "", "not found")
	} else {
		reach := p.reachLocal([]*ssa.Function{pk}, func(f *ssa.Function) bool {
			n := p.fname(f)
			// readMore only appends arrived data (moveTo) and waits; bufferSlice.peek is checked separately
			return n == "(*Stream).readMore" || n == "(*bufferSlice).peek"
		})
		bad := ""
		for f := range reach {
			if n := p.fname(f); n == "(*Stream).readMore" || n == "(*bufferSlice).peek" {
				continue
			}
			allInstrs(f, func(in ssa.Instruction) {
				switch x := in.(type) {
				case *ssa.Call:
					switch p.calleeName(&x.Call) {
					case "(*bufferSlice).read", "(*bufferSlice).skip", "(*sliceList).popFront", "(*linkedBuffer).readNextSlice", "(*bufferManager).recycleBuffer":
						bad = p.calleeName(&x.Call) + " in " + p.fname(f) + " at " + p.ipos(in)
					}
				case *ssa.Store:
					switch wordOf(x.Addr) {
					case "linkedBuffer.len", "bufferSlice.readIndex", "bufferSlice.writeIndex", "sliceList.frontSlice", "sliceList.len":
						bad = "store to " + wordOf(x.Addr) + " in " + p.fname(f) + " at " + p.ipos(in)
					}
				}
			})
		}
		r.ob("R06.2", "Peek consumes nothing: no cursor advance, unlink or length change in its transitive body", p.pos(pk.Pos()), bad == "", true, "%s", bad)
		// bufferSlice.peek: origin saved at entry, restored after the read on every path
		var origin ssa.Value
		allInstrs(bsPeek, func(in ssa.Instruction) {
			if u, ok := in.(*ssa.UnOp); ok && u.Op == token.MUL && wordOf(u.X) == "bufferSlice.readIndex" && origin == nil {
				origin = u
			}
		})
		reads := findInstrs(bsPeek, p.mCall("(*bufferSlice).read"))
		okRestore := origin != nil && len(reads) > 0
		for _, rd := range reads {
			if oi, ok := origin.(ssa.Instruction); !ok || !instrDominates(oi, rd) {
				okRestore = false
			}
			res := p.mustPass(bsPeek, []Point{pointOf(rd)}, func(in ssa.Instruction) bool {
				st, ok := in.(*ssa.Store)
				return ok && wordOf(st.Addr) == "bufferSlice.readIndex" && st.Val == origin
			}, nil, nil)
			if !res.OK {
				okRestore = false
			}
		}
		r.ob("R06.2", "bufferSlice.peek saves the read cursor before reading and restores it on every path", p.pos(bsPeek.Pos()), okRestore, true, "")
		// Peek's multi-slice slow path uses peek, and walks with next() (no pop)
		usesPeek := len(findInstrs(pk, p.mCall("(*bufferSlice).peek"))) >= 1
		r.ob("R06.2", "Peek reads slices through bufferSlice.peek only", p.pos(pk.Pos()), usesPeek, true, "")
	}

	// ---- R06.3 Len pairing
	lenStore := mStoreWord("linkedBuffer.len")
	type entry struct {
		name string
		op   token.Token
	}
	entries := []entry{
		{"ReadBytes", token.SUB}, {"ReadString", token.SUB}, {"ReadByte", token.SUB}, {"Discard", token.SUB}, {"read", token.SUB},
		{"WriteBytes", token.ADD}, {"WriteByte", token.ADD}, {"Reserve", token.ADD}, {"appendBufferSlice", token.ADD},
	}
	classified := map[string]bool{"(*linkedBuffer).clean": true}
	for _, e := range entries {
		f := p.fn("(*linkedBuffer)." + e.name)
		if f == nil {
			r.fail("R06.3", "anchor (*linkedBuffer)."+e.name, "", "entry point not found")
			continue
		}
		fn := p.fname(f)
		classified[fn] = true
		stores := findInstrs(f, lenStore)
		r.count("R06.3", "length adjustments in "+fn, len(stores), 1)
		for _, si := range stores {
			st := si.(*ssa.Store)
			b, ok := st.Val.(*ssa.BinOp)
			okShape := ok && b.Op == e.op && isLoadOf(b.X, "linkedBuffer.len")
			dir := "decreased"
			if e.op == token.ADD {
				dir = "increased"
			}
			r.ob("R06.3", fn+": the buffered length is "+dir+" (len = len op amount)", p.ipos(si), okShape, true, "")
		}
		// exactly one adjustment per success return
		for _, ret := range returnsOf(f) {
			if f.Recover != nil && ret.Block() == f.Recover {
				continue
			}
			if isErrorExit(ret) {
				continue
			}
			// early returns before anything was consumed/produced: results are zero values and no front()/append happened
			trivial := true
			for _, u := range p.sitesMay(f, p.mCall("(*sliceList).front", "(*bufferSlice).append", "(*bufferSlice).reserve", "(*sliceList).pushBack"), 1) {
				if p.reaches(u, ret, nil) {
					trivial = false
				}
			}
			cnt := 0
			okOnce := true
			for _, si := range stores {
				if p.reaches(si, ret, nil) || instrDominates(si, ret) {
					cnt++
				}
			}
			// every path to this return passes one store
			res := p.mustPass(f, []Point{{f.Blocks[0], -1}}, lenStore.F, nil, func(r2 *ssa.Return, _ *ssa.BasicBlock) bool { return r2 == ret })
			for _, a := range stores {
				for _, b := range stores {
					if p.reaches(a, b, nil) && p.reaches(b, ret, nil) {
						okOnce = false
					}
				}
			}
			if trivial {
				r.ob("R06.3", fn+": an early return that consumed/produced nothing leaves the length unchanged", p.ipos(ret), cnt == 0, true, "")
				continue
			}
			r.ob("R06.3", fn+": a successful return adjusted the buffered length exactly once", p.ipos(ret), res.OK && okOnce, true,
				"Len must equal bytes flushed minus bytes consumed: a forgotten or doubled adjustment on one of the slow paths breaks every later blocking read: %s", p.pathString(res))
		}
	}
	// census: nobody else writes len
	nl := 0
	for _, f := range p.fnList {
		for _, si := range findInstrs(f, lenStore) {
			if _, isAlloc := si.(*ssa.Store).Addr.(*ssa.FieldAddr).X.(*ssa.Alloc); isAlloc {
				continue
			}
			nl++
			r.ob("R06.3", p.fname(f)+": writes linkedBuffer.len", p.ipos(si), classified[p.fname(f)], true, "only the consuming/producing entry points and clean() may adjust the length")
		}
	}
	r.count("R06.3", "stores to linkedBuffer.len", nl, 12)
	// Peek leaves the length alone
	if pk != nil {
		r.ob("R06.3", "Peek does not change the buffered length", p.pos(pk.Pos()), len(findInstrs(pk, lenStore)) == 0, true, "")
	}
	// Len() returns the field
	if lf := p.fn("(*linkedBuffer).Len"); lf != nil {
		ok := false
		for _, ret := range returnsOf(lf) {
			if isLoadOf(ret.Results[0], "linkedBuffer.len") {
				ok = true
			}
		}
		r.ob("R06.3", "Len() reports the tracked length", p.pos(lf.Pos()), ok, false, "")
	}

	// ---- R06.5 socket-fallback payload must be copied out of the connection's read buffer
	noEscapeOfEventBuffer(p, r, "R06.5")

	// ---- R06.6 the bytes survive the trip: the writer stamps size/start into the slice headers and the reader rebuilds
	// its cursors from the same words (shared with C03); the receive-side re-linker and done() keep every slice of
	// the chain (shared with C09)
	borrow(p, r, "C03", runC03, map[string]string{"R03.1": "R06.6"}, func(o Ob) bool {
		return constructHas(o, "(*bufferSlice).update", "newBufferSlice", "(*bufferSlice).reset")
	})
	borrow(p, r, "C09", runC09, map[string]string{"R09.5": "R06.6", "R09.6": "R06.6", "R09.9": "R06.6"}, nil)
	// ---- R06.7 per-stream byte order across the two transports: once bytes left through the connection the stream stays
	// there (sticky mark, set whenever the buffer spilled out of shared memory) (shared with C07 R07.2 / R07.3)
	borrow(p, r, "C07", runC07, map[string]string{"R07.2": "R06.7", "R07.3": "R06.7"}, nil)
	// ---- R06.8 no byte is delivered twice on the socket path: consumed event bytes never re-enter the receive window
	// (shared with C18 R18.4 / C13 R13.7)
	c18Window(p, r, "R06.8")

	// ---- R06.4 cursor writers
	cursorOwners := map[string]bool{
		"(*bufferSlice).read": true, "(*bufferSlice).peek": true, "(*bufferSlice).skip": true, "(*bufferSlice).reserve": true, "(*bufferSlice).append": true,
		"(*bufferSlice).reset": true, "newBufferSlice": true, "putBackBufferSlice": true,
		"handleFallbackData": true, // sets writeIndex of the slice it just built from the event payload
	}
	nc := 0
	for _, f := range p.fnList {
		allInstrs(f, func(in ssa.Instruction) {
			st, ok := in.(*ssa.Store)
			if !ok {
				return
			}
			w := wordOf(st.Addr)
			if w != "bufferSlice.readIndex" && w != "bufferSlice.writeIndex" {
				return
			}
			nc++
			r.ob("R06.4", p.fname(f)+": writes "+w, p.ipos(in), cursorOwners[p.fname(f)], true, "slice cursors belong to the slice's own methods")
		})
	}
	r.count("R06.4", "stores to slice cursors", nc, 8)
	// read(): cursor advances by exactly the returned length
	if rd := p.fn("(*bufferSlice).read"); rd != nil {
		ok := false
		for _, si := range findInstrs(rd, mStoreWord("bufferSlice.readIndex")) {
			if b, okb := si.(*ssa.Store).Val.(*ssa.BinOp); okb && b.Op == token.ADD && isLoadOf(b.X, "bufferSlice.readIndex") {
				// the same amount bounds the returned slice: data[readIndex : readIndex+size]
				allInstrs(rd, func(in ssa.Instruction) {
					if sl, oks := in.(*ssa.Slice); oks && isLoadOf(sl.X, "bufferSlice.data") {
						if hb, okh := sl.High.(*ssa.BinOp); okh && hb.Op == token.ADD && hb.Y == b.Y && isLoadOf(sl.Low, "bufferSlice.readIndex") && isLoadOf(hb.X, "bufferSlice.readIndex") {
							ok = true
						}
					}
				})
			}
		}
		r.ob("R06.4", "bufferSlice.read: returns data[readIndex:readIndex+n] and advances the cursor by the same n", p.pos(rd.Pos()), ok, true, "")
	}
}
