package main

import (
	"go/constant"
	"go/token"
	"go/types"

	"golang.org/x/tools/go/ssa"
)

// shared role discovery for the free list (used by C01, C02, C03)

type freeListRoles struct {
	poppers, pushers []*ssa.Function
	creators         []*ssa.Function // allocate a bufferList and initialise its control words
	mappers          []*ssa.Function // allocate a bufferList without initialising
}

func (p *P) allocates(fn *ssa.Function, typeName string) bool {
	found := false
	allInstrs(fn, func(in ssa.Instruction) {
		if a, ok := in.(*ssa.Alloc); ok && namedName(a.Type()) == typeName {
			found = true
		}
	})
	return found
}

func (p *P) freeListRoles() freeListRoles {
	var fr freeListRoles
	fr.poppers = p.functionsWhere(p.mAtomic("CAS", "*bufferList.head"))
	fr.pushers = p.functionsWhere(p.mAtomic("CAS", "*bufferList.tail"))
	for _, f := range p.fnList {
		if !p.allocates(f, "bufferList") {
			continue
		}
		if len(findInstrs(f, mStoreWord("*bufferList.cap"))) > 0 {
			fr.creators = append(fr.creators, f)
		} else {
			fr.mappers = append(fr.mappers, f)
		}
	}
	return fr
}

func inFns(f *ssa.Function, set []*ssa.Function) bool {
	for _, g := range set {
		if g == f {
			return true
		}
	}
	return false
}

func (p *P) pkgConstInt(name string) (int64, bool) {
	obj := p.TPkg.Scope().Lookup(name)
	c, ok := obj.(*types.Const)
	if !ok {
		return 0, false
	}
	v, ok := constant.Int64Val(constant.ToInt(c.Val()))
	return v, ok
}

// header mutator / accessor names (methods on bufferHeader and bufferSlice). Their bodies are
// validated against the layout constants by C03 R03.1.
var headerMutators = []string{"(bufferHeader).linkNext", "(bufferHeader).clearFlag", "(bufferHeader).setInUsed"}

func init() {
	register(&property{
		ID: "C01",
		Explanation: "Decides structural necessary conditions of exclusive buffer ownership on every path of the free-list code: " +
			"control words (head/tail/size) are mutated only atomically and only by the popper/pusher roles (plain stores only in the creator); " +
			"a slot is handed out only on the CAS-success edge and is built from the CAS's expected-old value; the successor installed is the old head's next link under its hasNext guard; " +
			"the size reservation and its bail-out dominate the CAS; the popped header is cleared before it escapes; the pusher resets before swinging tail and links exactly (oldTail -> newTail) on the CAS-success edge; " +
			"slot headers are written only by holder-role code; the payload window is header-stride consistent. " +
			"NOT decided: absence of double ownership under all interleavings (ABA, the tail-CAS/link window, cross-process visibility), and that head/next values are always slot boundaries.",
		RuleText: "R01.1 census of every store/atomic op/other use of *bufferList.{head,tail,size}; R01.2-R01.4,R01.7 per function containing CAS(*bufferList.head); R01.5 per function containing CAS(*bufferList.tail); R01.6 census of callers of header mutators and of raw stores into header bytes; R01.8 publish order inside linkNext; R01.9 ABA shape of the head CAS (a known finding on the current tree). Non-trivial = needed dominance/path/value-identity reasoning.",
		Run:      runC01,
	})
}

func runC01(p *P, r *R) {
	fr := p.freeListRoles()
	r.role("popper", p.names(fr.poppers))
	r.role("pusher", p.names(fr.pushers))
	r.role("creator", p.names(fr.creators))
	r.role("mapper", p.names(fr.mappers))
	r.count("R01.1", "popper functions (CAS on *bufferList.head)", len(fr.poppers), 1)
	r.count("R01.1", "pusher functions (CAS on *bufferList.tail)", len(fr.pushers), 1)
	r.count("R01.1", "creator functions (allocate bufferList and store *cap)", len(fr.creators), 1)

	ctl := map[string]bool{"*bufferList.head": true, "*bufferList.tail": true, "*bufferList.size": true}
	ptrField := map[string]bool{"bufferList.head": true, "bufferList.tail": true, "bufferList.size": true}

	// R01.1 census
	nSites := 0
	for _, f := range p.fnList {
		fn := p.fname(f)
		allInstrs(f, func(in ssa.Instruction) {
			// plain stores through the control-word pointers
			if s, ok := in.(*ssa.Store); ok {
				w := wordOf(s.Addr)
				if ctl[w] {
					nSites++
					ok := inFns(f, fr.creators)
					r.ob("R01.1", fn+": plain store to "+w, p.ipos(in), ok, true,
						"plain (non-atomic) stores to a free-list control word are allowed only in the creator role, before the list is shared")
				}
				return
			}
			if a := p.atomicOp(in); a != nil && ctl[a.Word] {
				nSites++
				allowed := false
				switch {
				case a.Op == "Load":
					allowed = true
				case a.Op == "CAS" && a.Word == "*bufferList.head":
					allowed = true // defines the popper role; R01.2-4 apply to it
				case a.Op == "CAS" && a.Word == "*bufferList.tail":
					allowed = true // defines the pusher role; R01.5 applies
				case a.Op == "Add" && a.Word == "*bufferList.size":
					allowed = inFns(f, fr.poppers) || inFns(f, fr.pushers)
					if !allowed {
						// a helper split off a popper/pusher (same receiver, called from nowhere else)
						for _, root := range append(append([]*ssa.Function{}, fr.poppers...), fr.pushers...) {
							if inFns(f, p.family(root)) {
								allowed = true
							}
						}
					}
				}
				r.ob("R01.1", fn+": atomic "+a.Op+" on "+a.Word, p.ipos(in), allowed, true,
					"allowed: Load anywhere; CAS(head) = popper; CAS(tail) = pusher; Add(size) only in popper/pusher; Store/Swap never")
			}
		})
		// other uses of the loaded control-word pointers (escape census)
		allInstrs(f, func(in ssa.Instruction) {
			for _, op := range in.Operands(nil) {
				fa, ok := loadOfField(*op)
				if !ok || !ptrField[fieldKey(fa)] {
					continue
				}
				switch x := in.(type) {
				case *ssa.Store:
					if stripConv(x.Addr) == stripConv(*op) {
						continue // store through it: handled above
					}
				case *ssa.UnOp:
					if x.Op == token.MUL {
						r.note("plain read of *%s in %s at %s (reads cannot create a second owner)", fieldKey(fa), fn, p.ipos(in))
						continue
					}
				case *ssa.Call:
					if a := p.atomicOp(in); a != nil && stripConv(a.Call.Args[0]) == stripConv(*op) {
						continue
					}
				case *ssa.BinOp:
					if x.Op == token.EQL || x.Op == token.NEQ {
						continue
					}
				}
				r.fail("R01.1", fn+": control-word pointer "+fieldKey(fa)+" escapes the census", p.ipos(in),
					"the pointer to a free-list control word is used by something other than a sync/atomic call, a plain read or a store (%T): cannot account for its writers", in)
			}
		})
	}
	r.count("R01.1", "control-word write/atomic sites", nSites, 5)
	for _, f := range fr.mappers {
		r.ob("R01.1", p.fname(f)+": mapper does not initialise control words", p.pos(f.Pos()), true, false, "no plain store to head/tail/size (checked by the census above)")
	}

	H, okH := p.pkgConstInt("bufferHeaderSize")
	if !okH {
		r.fail("R01.7", "constant bufferHeaderSize", "", "anchor constant not found")
	}

	for _, f := range fr.poppers {
		c01Popper(p, r, f, H)
	}
	for _, f := range fr.pushers {
		c01Pusher(p, r, f)
	}
	c01HeaderWriters(p, r, fr)
	// R01.11 ownership presupposes that both processes and every accessor agree on where the list's control words and a
	// slot's link/flag live, and that slots are laid out with the header stride (shared with C03)
	borrow(p, r, "C03", runC03, map[string]string{"R03.1": "R01.11", "R03.2": "R01.11"}, func(o Ob) bool {
		return constructHas(o, "free-list header", "slot header", "(bufferHeader)", "stride", "initial tail", "newBufferSlice")
	})
	c01FreshMemory(p, r, fr)
	c01Windows(p, r, H)
	c01NoSpareSlices(p, r)
	// R01.15 a chain handed to the peer through the queue is not recycled by the sender afterwards (shared with C09 R09.15)
	borrow(p, r, "C09", runC09, map[string]string{"R09.15": "R01.15"}, nil)
	abaRule(p, r, "R01.9")
	// R01.10 nobody but the holder touches a slot header: a chain walker does not use a slice's header after it gave the slice back
	linkReadBeforeRecycle(p, r, "R01.10")
	// R01.8 the link is published in the right order: next offset first, hasNext flag afterwards
	if ln := p.fn("(bufferHeader).linkNext"); ln != nil {
		nextO, _ := p.pkgConstInt("nextBufferOffset")
		flagO, _ := p.pkgConstInt("bufferFlagOffset")
		var stNext, stFlag ssa.Instruction
		for _, a := range rawAccesses(ln) {
			if a.Kind == "store" && a.K == nextO && a.Width == 4 {
				stNext = a.In
			}
			if a.Kind == "store" && a.K == flagO && a.Width == 1 {
				stFlag = a.In
			}
		}
		r.ob("R01.8", "(bufferHeader).linkNext: the next offset is written before the hasNext flag is set", p.pos(ln.Pos()), stNext != nil && stFlag != nil && instrDominates(stNext, stFlag), true,
			"a popper that sees hasNext follows the next word at once: flag-then-offset hands it a stale link")
	} else {
		r.fail("R01.8", "anchor (bufferHeader).linkNext", "", "not found")
	}
}

func sliceBase(v ssa.Value) (*ssa.Slice, bool) {
	v = stripConv(v)
	s, ok := v.(*ssa.Slice)
	return s, ok
}

func c01Popper(p *P, r *R, f *ssa.Function, H int64) {
	fn := p.fname(f)
	casM := p.mAtomic("CAS", "*bufferList.head")
	cass := findInstrs(f, casM)
	for _, ci := range cass {
		cas := ci.(*ssa.Call)
		old, nw := cas.Call.Args[1], cas.Call.Args[2]
		isOld := func(v ssa.Value) bool { return v == old }

		// R01.2 (successor): new is next-link accessor of the header at region[old:...], under hasNext guard
		okNew := false
		detail := "CAS new operand is not (bufferHeader).nextBufferOffset(header at old)"
		if nc, ok := stripConv(nw).(*ssa.Call); ok && p.calleeName(&nc.Call) == "(bufferHeader).nextBufferOffset" && len(nc.Call.Args) == 1 {
			hdr := nc.Call.Args[0]
			if sl, ok := sliceBase(hdr); ok && sl.Low == old && isLoadOf(sl.X, "bufferList.bufferRegion") {
				// guard: hasNext(hdr) true dominates the CAS
				g := false
				for _, fct := range factsAt(cas.Block()) {
					call, pol := condCall(fct.Cond)
					if call != nil && p.calleeName(&call.Call) == "(bufferHeader).hasNext" && fct.Truth == pol {
						if hs, ok := sliceBase(call.Call.Args[0]); ok && hs.Low == old {
							g = true
						}
					}
				}
				if g {
					okNew = true
					detail = "new = nextBufferOffset(region[old:old+H]) on the hasNext(true) edge of the same header"
				} else {
					detail = "CAS is not dominated by the hasNext()==true edge of the header at old"
				}
			} else {
				detail = "header given to nextBufferOffset is not bufferRegion[old: ...]"
			}
		}
		r.ob("R01.2", fn+": CAS(head) installs the old head's successor", p.ipos(cas), okNew, true, "%s", detail)

		// R01.3 reservation dominates CAS, with bail-out
		okRes := false
		d3 := "no atomic.AddInt32(size,-1) dominating the CAS"
		for _, ai := range findInstrs(f, p.mAtomic("Add", "*bufferList.size")) {
			ac := ai.(*ssa.Call)
			if c, ok := constInt(ac.Call.Args[1]); !ok || c != -1 {
				continue
			}
			if !instrDominates(ac, cas) {
				continue
			}
			d3 = "reservation found but the CAS is not on the remain>0 edge of its result"
			for _, fct := range factsAt(cas.Block()) {
				if b, ok := fct.Cond.(*ssa.BinOp); ok && b.X == ac {
					if c, ok := constInt(b.Y); ok {
						pos := (b.Op == token.LEQ && c == 0 && !fct.Truth) || (b.Op == token.LSS && c == 1 && !fct.Truth) ||
							(b.Op == token.GTR && c == 0 && fct.Truth) || (b.Op == token.GEQ && c == 1 && fct.Truth)
						if pos {
							okRes = true
							d3 = "AddInt32(size,-1) dominates the CAS; CAS only on the remain>0 edge"
						}
					}
				}
			}
		}
		r.ob("R01.3", fn+": slot reservation (size-1, bail out if <=0) precedes the head CAS", p.ipos(cas), okRes, true, "%s", d3)

		// R01.2 hand-out: every non-nil slice return dominated by CAS true edge, built from old
		nret := 0
		for _, ret := range returnsOf(f) {
			if len(ret.Results) == 0 || !mayBeNonNil(ret.Results[0], ret.Block(), nil) {
				continue
			}
			nret++
			g := p.guardedByCall(ret, casM, true)
			r.ob("R01.2", fn+": non-nil slice returned only on the CAS-success edge", p.ipos(ret), g, true,
				"return of a non-nil *bufferSlice must be dominated by the true edge of CAS(head, old, new)")
			mk, ok := ret.Results[0].(*ssa.Call)
			if !ok {
				r.fail("R01.2", fn+": returned slice is built from the CAS's old value", p.ipos(ret), "returned value is not a constructor call (%T)", ret.Results[0])
				continue
			}
			allOld := true
			bad := ""
			for i, a := range mk.Call.Args {
				if _, isC := stripConv(a).(*ssa.Const); isC {
					continue
				}
				if !derivedFrom(a, isOld, 10) {
					allOld = false
					bad = a.Name()
					_ = i
				}
			}
			r.ob("R01.2", fn+": returned slice is built from the CAS's old value", p.ipos(ret), allOld, true,
				"every non-constant argument of %s must derive from the CAS expected-old operand (offender: %s)", p.calleeName(&mk.Call), bad)

			// R01.7 payload window: some []byte arg is region[old+H : old+H+*capPerBuffer]
			okWin := false
			for _, a := range mk.Call.Args {
				sl, ok := sliceBase(a)
				if !ok || !isLoadOf(sl.X, "bufferList.bufferRegion") {
					continue
				}
				lo, ok1 := sl.Low.(*ssa.BinOp)
				hi, ok2 := sl.High.(*ssa.BinOp)
				if !ok1 || !ok2 || lo.Op != token.ADD || hi.Op != token.ADD || lo.X != old {
					continue
				}
				c, okc := constInt(lo.Y)
				if !okc || c != H {
					continue
				}
				hx, okx := hi.X.(*ssa.BinOp)
				if okx && hx.Op == token.ADD && hx.X == old {
					if c2, ok := constInt(hx.Y); ok && c2 == H {
						if u, ok := hi.Y.(*ssa.UnOp); ok && u.Op == token.MUL && isLoadOf(u.X, "bufferList.capPerBuffer") {
							okWin = true
						}
					}
				}
			}
			r.ob("R01.7", fn+": payload window is region[old+H : old+H+*capPerBuffer]", p.ipos(ret), okWin, true,
				"H must be the constant bufferHeaderSize (%d) the creator uses as header stride", H)

			// R01.4 header reset before escape: clearFlag (must) on the path CAS-true .. return
			clear := p.mCall("(bufferHeader).clearFlag")
			okClr := false
			for _, ci2 := range findInstrs(f, clear) {
				cc := ci2.(*ssa.Call)
				if hs, ok := sliceBase(cc.Call.Args[0]); ok && hs.Low == old && instrDominates(cc, ret) && p.guardedByCall(cc, casM, true) {
					okClr = true
					// setInUsed must not precede clearFlag (it would be wiped)
					for _, si := range findInstrs(f, p.mCall("(bufferHeader).setInUsed")) {
						if instrDominates(si, cc) {
							okClr = false
						}
					}
				}
			}
			r.ob("R01.4", fn+": popped header's stale flags are cleared before the slice escapes", p.ipos(ret), okClr, true,
				"clearFlag() on the header at old must dominate the non-nil return on the CAS-success path (a stale hasNext would make holders follow a link into the free list)")
		}
		r.count("R01.2", "non-nil returns in "+fn, nret, 1)
	}
}

func c01Pusher(p *P, r *R, f *ssa.Function) {
	fn := p.fname(f)
	casM := p.mAtomic("CAS", "*bufferList.tail")
	for _, ci := range findInstrs(f, casM) {
		cas := ci.(*ssa.Call)
		old, nw := cas.Call.Args[1], cas.Call.Args[2]
		// reset precedes CAS on every path: a call to (*bufferSlice).reset on a parameter dominates the CAS
		okReset := false
		for _, ri := range findInstrs(f, p.mCall("(*bufferSlice).reset")) {
			rc := ri.(*ssa.Call)
			if _, isParam := rc.Call.Args[0].(*ssa.Parameter); isParam && instrDominates(rc, cas) {
				okReset = true
			}
		}
		// and no reset after the CAS
		for _, ri := range findInstrs(f, p.mCall("(*bufferSlice).reset")) {
			if p.guardedByCall(ri, casM, true) {
				okReset = false
			}
		}
		r.ob("R01.5", fn+": pushed slot is reset before the tail CAS (never after)", p.ipos(cas), okReset, true,
			"a reset after the CAS would erase a link a concurrent pusher already hung on this slot")
		// the reset really drops the slot's own stale link: on every path with a header, the flag byte is cleared
		for _, ri := range findInstrs(f, p.mCall("(*bufferSlice).reset")) {
			g := p.localCallee(ri)
			if g == nil {
				continue
			}
			isHdr := func(v ssa.Value) bool { return isLoadOf(v, "bufferSlice.bufferHeader") }
			clr := p.mCall("(bufferHeader).clearFlag")
			res := p.mustPass(g, []Point{{g.Blocks[0], -1}}, func(in ssa.Instruction) bool { return p.evMust(in, clr, 1) },
				func(b *ssa.BasicBlock, i int) bool {
					ifi := blockIf(b)
					return ifi == nil || relOn(ifi.Cond, i == 0, isHdr, isNilConst) != "=="
				}, nil)
			r.ob("R01.5", p.fname(g)+": resetting a shared-memory slice clears its stale hasNext link", p.pos(g.Pos()), res.OK, true,
				"a recycled slice that keeps hasNext+next of its former chain makes a popper follow the stale link into a buffer that is still held: %s", p.pathString(res))
		}

		links := findInstrs(f, p.mCall("(bufferHeader).linkNext"))
		okLink := len(links) > 0
		d := "linkNext(region[oldTail:...], newTail) on the CAS-success edge"
		for _, li := range links {
			lc := li.(*ssa.Call)
			if !p.guardedByCall(lc, casM, true) {
				okLink = false
				d = "linkNext not dominated by the CAS-success edge"
			}
			hs, ok := sliceBase(lc.Call.Args[0])
			if !ok || hs.Low != old || !isLoadOf(hs.X, "bufferList.bufferRegion") {
				okLink = false
				d = "linkNext target is not the header at the CAS's expected-old tail"
			}
			if lc.Call.Args[1] != nw {
				okLink = false
				d = "linkNext stores a value different from the CAS's new operand"
			}
		}
		if len(links) == 0 {
			d = "no linkNext call found"
		}
		r.ob("R01.5", fn+": old tail is linked to exactly the slot that was swung in", p.ipos(cas), okLink, true, "%s", d)
		// every return passes the link (loop exit only through CAS success)
		res := p.mustPass(f, []Point{{f.Blocks[0], -1}}, func(in ssa.Instruction) bool { return p.mCall("(bufferHeader).linkNext").F(in) }, nil, nil)
		r.ob("R01.5", fn+": every exit has linked the slot", p.pos(f.Pos()), res.OK, true, "%s", p.pathString(res))
	}
}

// c01HeaderWriters: WHO census for slot-header writes.
func c01HeaderWriters(p *P, r *R, fr freeListRoles) {
	allowedCallers := map[string]map[string]bool{}
	add := func(callee string, callers ...string) {
		if allowedCallers[callee] == nil {
			allowedCallers[callee] = map[string]bool{}
		}
		for _, c := range callers {
			allowedCallers[callee][c] = true
		}
	}
	var holder []string
	for _, f := range fr.poppers {
		holder = append(holder, p.fname(f))
	}
	for _, f := range fr.pushers {
		holder = append(holder, p.fname(f))
	}
	for _, f := range fr.creators {
		holder = append(holder, p.fname(f))
	}
	// frozen table (confirmed by reading): who may mutate a slot header, one reason per entry
	for _, m := range headerMutators {
		add(m, holder...)                          // popper: the slot it just won; pusher: old tail it swung; creator: before publication
		add(m, "(*bufferSlice).update")            // writer stamps its own slice on done()
		add(m, "(*bufferSlice).reset")             // reset of a slice owned by the caller (pusher / reuse)
		add(m, "(*pendingData).moveToWithoutLock") // receiver re-links the chain it was handed
	}
	add("(*bufferSlice).update", "(*linkedBuffer).done")
	add("(*bufferSlice).reset", "(*linkedBuffer).releasePreviousReadAndReserve")
	for _, f := range fr.pushers {
		add("(*bufferSlice).reset", p.fname(f))
	}
	n := 0
	for _, f := range p.fnList {
		fn := p.fname(f)
		allInstrs(f, func(in ssa.Instruction) {
			cc := callCommon(in)
			if cc == nil {
				return
			}
			cn := p.calleeName(cc)
			if al, ok := allowedCallers[cn]; ok {
				n++
				r.ob("R01.6", fn+": calls header mutator "+cn, p.ipos(in), al[fn], true,
					"slot headers may be written only by holder-role code (popper, pusher, creator, writer's update, owner's reset, receiver re-linker)")
			}
		})
		// raw stores into bytes of a bufferHeader-typed slice
		allInstrs(f, func(in ssa.Instruction) {
			s, ok := in.(*ssa.Store)
			if !ok {
				return
			}
			ia, ok := stripConv(s.Addr).(*ssa.IndexAddr)
			if !ok {
				return
			}
			base := ia.X
			isHdr := namedName(base.Type()) == "bufferHeader" || isLoadOf(base, "bufferSlice.bufferHeader")
			if !isHdr {
				if ct, ok := base.(*ssa.ChangeType); ok && namedName(ct.X.Type()) == "bufferHeader" {
					isHdr = true
				}
			}
			if !isHdr {
				return
			}
			n++
			okw := fn == "(*bufferSlice).update" || fn == "(*bufferSlice).reset"
			for _, m := range headerMutators {
				if fn == m {
					okw = true
				}
			}
			r.ob("R01.6", fn+": raw store into slot-header bytes", p.ipos(in), okw, true, "raw header stores belong in the header mutator methods")
		})
	}
	r.count("R01.6", "header write sites", n, 8)
}

// abaRule (R01.9 / R02.7): in a popper, the CAS on head installs a successor that was read from the
// node designated by the expected-old value. Between that read and the CAS the node can be popped,
// recycled and become head again with a different successor (ABA); the CAS then succeeds and head
// designates a buffer that is still held, and the nodes behind the real successor are lost. The
// pattern is safe only if the compared word carries a modification counter (a 64-bit word whose new
// value combines the successor with an incremented tag of the old value).
func abaRule(p *P, r *R, rule string) {
	fr := p.freeListRoles()
	n := 0
	for _, f := range fr.poppers {
		for _, ci := range findInstrs(f, p.mAtomic("CAS", "*bufferList.head")) {
			cas := ci.(*ssa.Call)
			old, nw := cas.Call.Args[1], cas.Call.Args[2]
			readsThroughOld := derivedFrom(nw, func(v ssa.Value) bool {
				c, ok := v.(*ssa.Call)
				if !ok || p.calleeName(&c.Call) != "(bufferHeader).nextBufferOffset" {
					return false
				}
				return derivedFrom(c.Call.Args[0], func(x ssa.Value) bool { return x == old }, 6)
			}, 4)
			if !readsThroughOld {
				continue
			}
			n++
			tagged := false
			if callee := cas.Call.StaticCallee(); callee != nil && (callee.Name() == "CompareAndSwapUint64" || callee.Name() == "CompareAndSwapInt64") {
				// new = f(successor, tag(old)+1)
				if derivedFrom(nw, func(v ssa.Value) bool {
					b, ok := v.(*ssa.BinOp)
					return ok && (b.Op == token.SHR || b.Op == token.AND_NOT || b.Op == token.AND) && derivedFrom(b.X, func(x ssa.Value) bool { return x == old }, 3)
				}, 6) {
					tagged = true
				}
			}
			r.ob(rule, p.fname(f)+": CAS(head, old, next-of-old) on an untagged offset (ABA)", p.ipos(cas), tagged, true,
				"the successor is read from the node before the CAS; without a modification counter in the compared word a stale popper's CAS succeeds after the node was popped, recycled and became head again")
		}
	}
	r.count(rule, "head CAS sites that install a successor read through the expected-old value", n, 1)
}

// c01FreshMemory (R01.12): the creator role initialises the control words with plain stores, so it may only ever run on
// memory nobody else has mapped yet: in every function that maps memory and (transitively) runs a creator, each
// branch-consistent path from the entry to the creating call passes an exclusive creation of the backing object
// (os.OpenFile with O_CREATE|O_EXCL, or a fresh memfd). A creator run on a live region hands every held buffer out again.
func c01FreshMemory(p *P, r *R, fr freeListRoles) {
	var names []string
	for _, c := range fr.creators {
		names = append(names, p.fname(c))
	}
	if len(names) == 0 {
		return // R01.1's role floor reports the missing creator
	}
	mCreator := p.mCall(names...)
	oExcl, oCreate := int64(-1), int64(-1)
	if lp := p.LPkg.Imports["os"]; lp != nil && lp.Types != nil {
		for nm, dst := range map[string]*int64{"O_EXCL": &oExcl, "O_CREATE": &oCreate} {
			if c, ok := lp.Types.Scope().Lookup(nm).(*types.Const); ok {
				if v, okv := constant.Int64Val(constant.ToInt(c.Val())); okv {
					*dst = v
				}
			}
		}
	}
	if oExcl <= 0 || oCreate <= 0 {
		r.fail("R01.12", "constants os.O_EXCL / os.O_CREATE", "", "not resolved")
		return
	}
	fresh := func(in ssa.Instruction) bool {
		c, ok := in.(*ssa.Call)
		if !ok {
			return false
		}
		switch p.calleeName(&c.Call) {
		case "os.OpenFile":
			fl, okc := constInt(c.Call.Args[1])
			return okc && fl&oExcl != 0 && fl&oCreate != 0
		case "MemfdCreate", "golang.org/x/sys/unix.MemfdCreate":
			return true
		}
		return false
	}
	mMmap := p.mCall("syscall.Mmap", "golang.org/x/sys/unix.Mmap")
	n := 0
	for _, f := range p.fnList {
		if len(findInstrs(f, mMmap)) == 0 || !p.may(f, mCreator, 3) {
			continue
		}
		fn := p.fname(f)
		r.Scope[fn] = true
		n++
		mFresh := M{ID: "exclusive-create", F: fresh}
		ok, res := p.findBadPath(f, []Point{{f.Blocks[0], -1}}, pathOpts{
			// a local helper that creates exclusively on all of its paths counts (its error exits return before the creator here)
			Discharge: func(in ssa.Instruction) bool { return p.evMust(in, mFresh, 2) },
			Bad: func(in ssa.Instruction) bool {
				if _, isCall := in.(*ssa.Call); !isCall {
					return false
				}
				return p.evMay(in, mCreator, 3)
			},
		})
		r.ob("R01.12", fn+": the free lists are created only in a backing object this call created exclusively (O_CREATE|O_EXCL file or fresh memfd)", p.pos(f.Pos()), ok, true,
			"a creator run on a region that is already in use re-issues every held buffer: %s", p.pathString(res))
	}
	r.count("R01.12", "functions that map memory and create free lists in it", n, 2)
}

// c01Windows (R01.13): wherever a descriptor of a shared-memory slot is built (newBufferSlice(..., isFromShm=true)), the
// payload window handed to it starts right behind the slot header and ends exactly one capacity later, the capacity
// being the list's capPerBuffer or the capacity word of that very slot's header. A window that is longer than the slot
// lets a writer of this buffer run over the headers and payloads of its neighbours.
func c01Windows(p *P, r *R, H int64) {
	mk := p.fn("newBufferSlice")
	if mk == nil {
		r.fail("R01.13", "anchor newBufferSlice", "", "not found")
		return
	}
	capOff, _ := p.pkgConstInt("bufferCapOffset")
	n := 0
	for _, f := range p.fnList {
		for _, ci := range findInstrs(f, p.mCall("newBufferSlice")) {
			c := ci.(*ssa.Call)
			if k, ok := c.Call.Args[3].(*ssa.Const); !ok || k.Value == nil || k.Value.String() != "true" {
				continue
			}
			n++
			fn := p.fname(f)
			hb, lh, _, _, okh := flatSlice(c.Call.Args[0])
			db, ld, hd, hasHi, okd := flatSlice(c.Call.Args[1])
			ok, detail := false, ""
			switch {
			case !okh || !okd:
				detail = "header / payload argument is not a slice expression of the mapped memory"
			case !hasHi:
				detail = "the payload window has no upper bound (extends to the end of the mapping)"
			case !sameExpr(hb, db, 4):
				detail = "header and payload are cut from different memory"
			default:
				if d, isC := ld.add(lh, -1).isConst(); !isC || d != H {
					detail = "the payload does not start bufferHeaderSize behind the header"
					break
				}
				atom, single := hd.add(ld, -1).singleAtom()
				if !single {
					detail = "the payload length is not a single capacity value: " + hd.add(ld, -1).String()
					break
				}
				if atom == "load:*bufferList.capPerBuffer" {
					ok = true
					break
				}
				// the capacity word of this very slot: a 4-byte raw load at header.low + bufferCapOffset from the same memory
				for _, a := range rawAccesses(f) {
					if a.Kind != "load" || a.Width != 4 || valKey(a.Val) != atom || !sameExpr(a.Base, hb, 4) {
						continue
					}
					idx := linConst(a.K)
					if a.Sym != nil {
						idx = idx.add(symLin(a.Sym, 6), 1)
					}
					if d, isC := idx.add(lh, -1).isConst(); isC && d == capOff {
						ok = true
					}
				}
				if !ok {
					detail = "the payload length is neither the list's capPerBuffer nor the slot's own capacity word"
				}
			}
			r.ob("R01.13", fn+": a shared-memory descriptor's payload window is exactly [header+H, header+H+capacity)", p.ipos(ci), ok, true, "%s", detail)
		}
	}
	r.count("R01.13", "constructions of shared-memory descriptors", n, 2)
}

// flatSlice resolves nested slice expressions (`buf := mem[a:b]; buf[c:]`) to one window of the innermost base:
// base[lo:hi] with lo, hi as linear terms; hasHi is false when the window extends to the end of the base.
func flatSlice(v ssa.Value) (base ssa.Value, lo, hi lin, hasHi, ok bool) {
	sl, isS := sliceBase(v)
	if !isS {
		return nil, lin{}, lin{}, false, false
	}
	lo = symLin(sl.Low, 6) // nil Low = 0
	if sl.High != nil {
		hi, hasHi = symLin(sl.High, 6), true
	}
	if _, inner := sliceBase(sl.X); inner {
		b2, lo2, hi2, has2, ok2 := flatSlice(sl.X)
		if !ok2 {
			return nil, lin{}, lin{}, false, false
		}
		if hasHi {
			hi = hi.add(lo2, 1)
		} else if has2 {
			hi, hasHi = hi2, true
		}
		return b2, lo.add(lo2, 1), hi, hasHi, true
	}
	return sl.X, lo, hi, hasHi, true
}

// c01NoSpareSlices (R01.14): done() publishes every written slice's header — including the link of the write slice to
// whatever follows it — *before* it splits the unused tail off and recycles it. That is only harmless because the
// writers never leave a wholly unused slice behind the write slice: each allocation asks for exactly the bytes that
// remain. The rule first re-establishes the hazard (an update() that can run before splitFromWrite in done()) and,
// while it exists, requires every allocation request of a writer that appends a caller-supplied byte slice to equal
// len(data) minus the count already written (compared as linear terms). Otherwise the peer follows a published link
// into a slice that was recycled: it is freed twice and ends up with two owners.
func c01NoSpareSlices(p *P, r *R) {
	dn := p.fn("(*linkedBuffer).done")
	if dn == nil {
		r.fail("R01.14", "anchor (*linkedBuffer).done", "", "not found")
		return
	}
	hazard := false
	for _, ui := range findInstrs(dn, p.mCall("(*bufferSlice).update")) {
		for _, si := range findInstrs(dn, p.mCall("(*sliceList).splitFromWrite")) {
			if p.reaches(ui, si, nil) {
				hazard = true
			}
		}
	}
	if !hazard {
		r.note("R01.14: done() splits the unused tail off before it publishes the headers (or never splits): writers may over-allocate")
		r.count("R01.14", "hazard absent: nothing to require", 1, 1)
		return
	}
	n := 0
	for _, f := range p.fnList {
		allocs := findInstrs(f, p.mCall("(*linkedBuffer).alloc"))
		if len(allocs) == 0 {
			continue
		}
		// the caller-supplied bytes: a []byte parameter whose len() is taken
		var lenData ssa.Value
		allInstrs(f, func(in ssa.Instruction) {
			if c, ok := isBuiltinCall(in, "len"); ok {
				if prm, isP := c.Call.Args[0].(*ssa.Parameter); isP && isByteSlice(prm.Type()) {
					lenData = c
				}
			}
		})
		if lenData == nil {
			continue // byte-at-a-time writers ask for a constant
		}
		ld := symLin(lenData, 0)
		isLen := func(v ssa.Value) bool { return symLin(v, 4).equal(ld) }
		for _, ai := range allocs {
			n++
			a := symLin(ai.(*ssa.Call).Call.Args[1], 6)
			ok, detail := false, ""
			// written so far: a value X known to be < len(data) at this point, or nothing written yet
			for _, fct := range factsAt(ai.Block()) {
				b, isB := fct.Cond.(*ssa.BinOp)
				if !isB {
					continue
				}
				for _, x := range []ssa.Value{b.X, b.Y} {
					if rel := relOn(fct.Cond, fct.Truth, func(v ssa.Value) bool { return v == x }, isLen); rel == "<" {
						if a.equal(ld.add(symLin(x, 6), -1)) {
							ok = true
						} else {
							detail = "asks for " + a.String() + " where len(data) - written = " + ld.add(symLin(x, 6), -1).String()
						}
					}
				}
			}
			if !ok && detail == "" {
				// before anything was written: the request is len(data) minus the initial count (0)
				first := true
				for _, ap := range findInstrs(f, p.mCall("(*bufferSlice).append")) {
					if p.reaches(ap, ai, nil) {
						first = false
					}
				}
				if first && (a.equal(ld) || func() bool { d := a.add(ld, -1); _, isC := d.isConst(); return isC || len(d.k) == 1 }()) {
					ok = true
				} else {
					detail = "asks for " + a.String()
				}
			}
			r.ob("R01.14", p.fname(f)+": allocation request #"+itoa(int64(n))+" covers exactly the bytes that remain to be written (no wholly unused slice is left behind the write slice)", p.ipos(ai), ok, true, "%s", detail)
		}
	}
	r.count("R01.14", "allocation requests of slice writers", n, 2)
}
