// shmlint decides repository-specific structural rules for the properties in
// /verif/properties.jsonl by static analysis of /repo's working tree (go/types + go/ssa + call graph).
// It never runs the analysed code.
package main

import (
	"flag"
	"fmt"
	"os"
	"path/filepath"
	"runtime/debug"
	"sort"
	"strconv"
	"strings"
	"time"
)

type property struct {
	ID          string
	Explanation string // what is decided and what is not
	RuleText    string // how obligations are generated
	Run         func(p *P, r *R)
	Assumptions []string
	// QuickConfigs: build configurations analysed already in the quick tier (default: only the default one)
	QuickConfigs []BuildConfig
}

var registry = map[string]*property{}

func register(pr *property) { registry[pr.ID] = pr }

var commonAssumptions = []string{
	"go/types + go/ssa (x/tools v0.29.0) model the analysed source faithfully; package loaded from /repo's working tree with the real build flags",
	"dynamic calls are over-approximated by VTA seeded with CHA; package-local static calls are summarised to depth 3 (virtual inlining)",
	"ordering rules speak about program order inside one goroutine; sync/atomic memory-model effects and cross-process visibility are not modelled",
	"cooperative peer for shared-memory contents; 64-bit int",
}

func main() {
	prop := flag.String("prop", "", "property id (C01..C20)")
	tier := flag.String("tier", "", "quick|thorough (default: $VERIF_TIER or quick)")
	repo := flag.String("repo", "/repo", "repository working tree to analyse")
	evPath := flag.String("evidence", "", "evidence file (default /verif/evidence/<prop>.json)")
	known := flag.String("known", "/verif/known-findings.txt", "known findings file")
	replay := flag.String("replay", "", "print a stored report file")
	noEvidence := flag.Bool("no-evidence", false, "do not write evidence / report files (used by the mutation self-test)")
	mutdir := flag.String("mutants", "/verif/mutants", "directory with mutation self-test patches (thorough tier)")
	probeWhat := flag.String("probe", "", "development aid: print an internal extraction (raw)")
	flag.Parse()
	if *probeWhat != "" {
		probe(*probeWhat, *repo)
		return
	}

	if *replay != "" {
		b, err := os.ReadFile(*replay)
		if err != nil {
			fmt.Fprintln(os.Stderr, err)
			os.Exit(2)
		}
		os.Stdout.Write(b)
		return
	}
	if *tier == "" {
		*tier = os.Getenv("VERIF_TIER")
	}
	if *tier == "" {
		*tier = "quick"
	}
	if *tier != "quick" && *tier != "thorough" {
		fmt.Fprintln(os.Stderr, "bad -tier")
		os.Exit(2)
	}
	pr := registry[*prop]
	if pr == nil {
		var ids []string
		for id := range registry {
			ids = append(ids, id)
		}
		sort.Strings(ids)
		fmt.Fprintf(os.Stderr, "unknown -prop %q; have %v\n", *prop, ids)
		os.Exit(2)
	}
	if *evPath == "" {
		*evPath = "/verif/evidence/" + pr.ID + ".json"
	}
	seed, _ := strconv.Atoi(os.Getenv("VERIF_SEED"))
	code := runProperty(pr, *tier, *repo, *evPath, *known, seed, *noEvidence, *mutdir)
	os.Exit(code)
}

func runProperty(pr *property, tier, repo, evPath, knownPath string, seed int, noEvidence bool, mutdir string) (code int) {
	start := time.Now()
	// any panic / internal error is a failure of the check, never a pass
	defer func() {
		if e := recover(); e != nil {
			fmt.Printf("CHECKER-ERROR property=%s panic: %v\n%s\n", pr.ID, e, debug.Stack())
			code = 2
		}
	}()
	cfgs := []BuildConfig{cfgDefault}
	cfgs = append(cfgs, pr.QuickConfigs...)
	if tier == "thorough" {
		for _, c := range []BuildConfig{cfgRace, cfgArm64} {
			have := false
			for _, x := range cfgs {
				if x == c {
					have = true
				}
			}
			if !have {
				cfgs = append(cfgs, c)
			}
		}
	}
	all := newR(pr.ID)
	covered := map[string]bool{}
	var cfgNames []string
	nfuncs := 0
	for _, cfg := range cfgs {
		p, err := loadConfig(repo, cfg)
		if err != nil {
			fmt.Printf("CHECKER-ERROR property=%s %v\n", pr.ID, err)
			return 2
		}
		for f := range p.loadedFiles() {
			covered[f] = true
		}
		r := newR(pr.ID)
		r.Cfg = cfg.Name
		pr.Run(p, r)
		all.Obs = append(all.Obs, r.Obs...)
		for _, n := range r.Notes {
			all.Notes = append(all.Notes, "["+cfg.Name+"] "+n)
		}
		if cfg == cfgDefault {
			all.Roles, all.Counts, all.Floors, all.Scope = r.Roles, r.Counts, r.Floors, r.Scope
			nfuncs = len(p.fnList)
		}
		cfgNames = append(cfgNames, cfg.Name)
	}
	// file coverage: every non-test .go file must be parsed by at least one configuration
	// (quick tier: files excluded by build constraints of the default configuration are listed).
	var uncovered []string
	for _, f := range goFilesInDir(repo) {
		if !covered[f] {
			uncovered = append(uncovered, f)
		}
	}
	obs := dedupObs(all.Obs)
	sort.SliceStable(obs, func(i, j int) bool { return obs[i].key() < obs[j].key() })

	known, err := loadKnown(knownPath)
	if err != nil {
		fmt.Printf("CHECKER-ERROR property=%s %v\n", pr.ID, err)
		return 2
	}
	matchKnown := func(o Ob) *knownFinding {
		for i := range known {
			k := &known[i]
			if k.Prop == pr.ID && k.Rule == o.Rule && k.Construct == o.Construct {
				return k
			}
		}
		return nil
	}
	var viol, knownHit []Ob
	discharged := 0
	nontrivial := map[string]bool{}
	for _, o := range obs {
		if o.OK {
			discharged++
			if o.Nontrivial {
				nontrivial[o.key()] = true
			}
			continue
		}
		if matchKnown(o) != nil {
			knownHit = append(knownHit, o)
		} else {
			viol = append(viol, o)
		}
	}
	if len(obs) == 0 {
		viol = append(viol, Ob{Rule: "R00", Construct: "no obligations generated", Detail: "the property's rules matched nothing"})
	}

	// report files
	repDir := filepath.Join(filepath.Dir(evPath), "reports")
	repPath := filepath.Join(repDir, pr.ID+".txt")
	var sb strings.Builder
	fmt.Fprintf(&sb, "property %s tier %s configurations %v\n", pr.ID, tier, cfgNames)
	for _, o := range viol {
		fmt.Fprintf(&sb, "VIOLATION %s %s\n    at %s [%s]\n    %s\n", o.Rule, o.Construct, o.Pos, o.Cfg, o.Detail)
	}
	for _, o := range knownHit {
		fmt.Fprintf(&sb, "KNOWN %s %s\n    at %s\n    %s\n", o.Rule, o.Construct, o.Pos, o.Detail)
	}
	for _, o := range obs {
		if o.OK {
			fmt.Fprintf(&sb, "ok %s %s  (%s) %s\n", o.Rule, o.Construct, o.Pos, o.Detail)
		}
	}
	for _, n := range all.Notes {
		fmt.Fprintf(&sb, "NOTE %s\n", n)
	}

	// stdout
	for _, o := range knownHit {
		k := matchKnown(o)
		fmt.Printf("KNOWN-FINDING: property=%s %s %s: %s\n", pr.ID, o.Rule, o.Construct, k.Why)
	}
	for _, o := range viol {
		fmt.Printf("  %s %s\n      at %s [%s]: %s\n", o.Rule, o.Construct, o.Pos, o.Cfg, o.Detail)
	}
	selftest := map[string]interface{}{}
	selfFailed := false
	if tier == "thorough" && !noEvidence {
		st := runMutants(pr.ID, repo, mutdir)
		selftest = st.summary()
		if st.Failed > 0 {
			selfFailed = true
			for _, l := range st.FailLines {
				fmt.Println("SELFTEST-FAILED " + l)
			}
		}
	}
	if tier == "thorough" && !noEvidence && len(viol) == 0 {
		bt := runBenign(pr.ID, repo, filepath.Join(filepath.Dir(mutdir), "benign"))
		selftest["behaviour_preserving_variants"] = map[string]interface{}{"variants": bt.Total, "silent": bt.Killed, "skipped": bt.Skipped, "false_alarms": bt.Failed, "detail": bt.Lines}
		if bt.Failed > 0 {
			selfFailed = true
			for _, l := range bt.FailLines {
				fmt.Println("SELFTEST-FAILED " + l)
			}
		}
	}
	if len(viol) > 0 {
		fmt.Printf("VIOLATION property=%s replay=%s\n", pr.ID, repPath)
	}
	fmt.Printf("%s %s: %d obligations, %d discharged, %d known finding(s), %d violation(s), %d note(s), %d functions, %.1fs\n",
		pr.ID, tier, len(obs), discharged, len(knownHit), len(viol), len(all.Notes), nfuncs, time.Since(start).Seconds())

	if !noEvidence {
		os.MkdirAll(repDir, 0o755)
		os.WriteFile(repPath, []byte(sb.String()), 0o644)
		var samples []interface{}
		// sample: prefer nontrivial obligations, spread over rules
		seenRule := map[string]int{}
		for _, o := range obs {
			if seenRule[o.Rule] >= 2 || len(samples) >= 24 {
				continue
			}
			seenRule[o.Rule]++
			samples = append(samples, o)
		}
		var scope []string
		for f := range all.Scope {
			scope = append(scope, f)
		}
		sort.Strings(scope)
		var kh []string
		for _, o := range knownHit {
			kh = append(kh, o.key())
		}
		ev := evidence{
			PropertyID: pr.ID, Tier: tier, Seed: seed, Level: "other",
			Coverage: map[string]interface{}{
				"explanation":                          pr.Explanation,
				"rule":                                 pr.RuleText,
				"obligations":                          len(obs),
				"discharged":                           discharged,
				"evaluations":                          len(all.Obs),
				"distinct_nontrivial":                  len(nontrivial),
				"samples":                              samples,
				"configurations":                       cfgNames,
				"functions_in_package":                 nfuncs,
				"functions_in_scope":                   scope,
				"roles":                                all.Roles,
				"instance_counts":                      all.Counts,
				"instance_floors":                      all.Floors,
				"notes":                                all.Notes,
				"known_findings_matched":               kh,
				"files_not_in_analysed_configurations": uncovered,
				"mutation_selftest":                    selftest,
				"checker_cmd":                          strings.Join(os.Args, " "),
				"exhaustive":                           false,
			},
			Assumptions: append(append([]string{}, commonAssumptions...), pr.Assumptions...),
			WallS:       time.Since(start).Seconds(),
			Violations:  len(viol),
		}
		if err := writeJSON(evPath, ev); err != nil {
			fmt.Printf("CHECKER-ERROR property=%s cannot write evidence: %v\n", pr.ID, err)
			return 2
		}
	}
	if len(viol) > 0 {
		return 1
	}
	if selfFailed {
		return 3
	}
	return 0
}
