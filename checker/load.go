package main

import (
	"fmt"
	"go/ast"
	"go/token"
	"go/types"
	"os"
	"path/filepath"
	"sort"
	"strings"

	"golang.org/x/tools/go/callgraph"
	"golang.org/x/tools/go/callgraph/cha"
	"golang.org/x/tools/go/callgraph/vta"
	"golang.org/x/tools/go/packages"
	"golang.org/x/tools/go/ssa"
	"golang.org/x/tools/go/ssa/ssautil"
)

const rootPkgPath = "github.com/cloudwego/shmipc-go"

// BuildConfig names one of the build configurations of the analysed package.
type BuildConfig struct {
	Name   string
	Tags   string
	GOARCH string
}

var (
	cfgDefault = BuildConfig{Name: "default(amd64)"}
	cfgRace    = BuildConfig{Name: "race", Tags: "race"}
	cfgArm64   = BuildConfig{Name: "arm64", GOARCH: "arm64"}
)

// P is one loaded, type-checked and SSA-built configuration of /repo's working tree.
type P struct {
	Cfg   BuildConfig
	Dir   string
	Fset  *token.FileSet
	LPkg  *packages.Package
	Prog  *ssa.Program
	Pkg   *ssa.Package
	TPkg  *types.Package
	Info  *types.Info
	Files []*ast.File

	fns        map[string]*ssa.Function // RelString name -> function (incl. closures)
	fnList     []*ssa.Function
	cg         *callgraph.Graph
	sumMemo    map[string]bool
	sumBusy    map[string]bool
	borrowed   map[string]*R
	regionMemo map[string]Region
	running    map[string]bool
}

func loadConfig(dir string, cfg BuildConfig) (*P, error) {
	env := append(os.Environ(), "GOFLAGS=-mod=mod", "GOPROXY=off", "GOSUMDB=off", "GOTOOLCHAIN=local", "GOWORK=off", "CGO_ENABLED=0")
	if cfg.GOARCH != "" {
		env = append(env, "GOARCH="+cfg.GOARCH)
	}
	pc := &packages.Config{
		Mode:  packages.LoadSyntax,
		Dir:   dir,
		Env:   env,
		Tests: false,
	}
	if cfg.Tags != "" {
		pc.BuildFlags = []string{"-tags=" + cfg.Tags}
	}
	pkgs, err := packages.Load(pc, ".")
	if err != nil {
		return nil, fmt.Errorf("load %s: %v", cfg.Name, err)
	}
	if len(pkgs) != 1 {
		return nil, fmt.Errorf("load %s: expected 1 package, got %d", cfg.Name, len(pkgs))
	}
	lp := pkgs[0]
	if lp.PkgPath != rootPkgPath {
		return nil, fmt.Errorf("load %s: unexpected package %q", cfg.Name, lp.PkgPath)
	}
	if len(lp.Errors) > 0 {
		var sb strings.Builder
		for _, e := range lp.Errors {
			sb.WriteString(e.Error())
			sb.WriteString("; ")
		}
		return nil, fmt.Errorf("load %s: package has errors: %s", cfg.Name, sb.String())
	}
	if lp.Types == nil || lp.TypesInfo == nil || len(lp.Syntax) == 0 {
		return nil, fmt.Errorf("load %s: no type information / syntax", cfg.Name)
	}
	prog, spkgs := ssautil.Packages(pkgs, ssa.InstantiateGenerics)
	if len(spkgs) != 1 || spkgs[0] == nil {
		return nil, fmt.Errorf("load %s: no SSA package", cfg.Name)
	}
	prog.Build()
	p := &P{Cfg: cfg, Dir: dir, Fset: lp.Fset, LPkg: lp, Prog: prog, Pkg: spkgs[0], TPkg: lp.Types, Info: lp.TypesInfo, Files: lp.Syntax,
		fns: map[string]*ssa.Function{}, sumMemo: map[string]bool{}, sumBusy: map[string]bool{}}
	for f := range ssautil.AllFunctions(prog) {
		if f.Pkg != p.Pkg || f.Synthetic != "" || f.Blocks == nil {
			continue
		}
		name := p.fname(f)
		p.fns[name] = f
		p.fnList = append(p.fnList, f)
	}
	sort.Slice(p.fnList, func(i, j int) bool { return p.fname(p.fnList[i]) < p.fname(p.fnList[j]) })
	if len(p.fnList) < 100 {
		return nil, fmt.Errorf("load %s: only %d functions with bodies found", cfg.Name, len(p.fnList))
	}
	return p, nil
}

// goFilesInDir lists the non-test .go files of the package directory (for the file-coverage assertion).
func goFilesInDir(dir string) []string {
	ents, _ := os.ReadDir(dir)
	var out []string
	for _, e := range ents {
		n := e.Name()
		if e.IsDir() || !strings.HasSuffix(n, ".go") || strings.HasSuffix(n, "_test.go") {
			continue
		}
		out = append(out, n)
	}
	sort.Strings(out)
	return out
}

func (p *P) loadedFiles() map[string]bool {
	m := map[string]bool{}
	for _, f := range p.LPkg.CompiledGoFiles {
		m[filepath.Base(f)] = true
	}
	return m
}

func (p *P) fname(f *ssa.Function) string {
	if f == nil {
		return "<nil>"
	}
	return f.RelString(p.Pkg.Pkg)
}

// fn returns the function with the given package-relative name, or nil.
func (p *P) fn(name string) *ssa.Function { return p.fns[name] }

func (p *P) pos(pos token.Pos) string {
	if !pos.IsValid() {
		return "?"
	}
	ps := p.Fset.Position(pos)
	return fmt.Sprintf("%s:%d", filepath.Base(ps.Filename), ps.Line)
}

func (p *P) ipos(in ssa.Instruction) string {
	if in == nil {
		return "?"
	}
	if in.Pos().IsValid() {
		return p.pos(in.Pos())
	}
	// fall back to any positioned instruction nearby in the block
	if b := in.Block(); b != nil {
		idx := -1
		for i, x := range b.Instrs {
			if x == in {
				idx = i
			}
		}
		for d := 1; d < len(b.Instrs); d++ {
			for _, j := range []int{idx - d, idx + d} {
				if j >= 0 && j < len(b.Instrs) && b.Instrs[j].Pos().IsValid() {
					return "~" + p.pos(b.Instrs[j].Pos())
				}
			}
		}
		return p.pos(in.Parent().Pos())
	}
	return "?"
}

// callGraph builds (once) the VTA call graph seeded with CHA.
func (p *P) callGraph() *callgraph.Graph {
	if p.cg == nil {
		all := ssautil.AllFunctions(p.Prog)
		p.cg = vta.CallGraph(all, cha.CallGraph(p.Prog))
	}
	return p.cg
}
