package main

import (
	"go/token"

	"golang.org/x/tools/go/ssa"
)

func init() {
	register(&property{
		ID: "C10",
		Explanation: "Decides the stream state machine structurally: every write of Stream.state is a CAS (or the constructor's store) whose (old,new) pair lies in the forward-only relation opened->{halfClosed,localClosing,closed}, {halfClosed,localClosing}->closed; opened->halfClosed is performed only by the remote-close handler (reachable from wire handlers, not from the exported Close) and opened->localClosing only by the exported Close; " +
			"the goroutine that wins the CAS to closed always cleans, and for every state a local close can start from (opened, localClosing) reaches: close of the notify channel, exactly one callback, and peer notification through the queue or the connection unless the session is closed; a close that starts from halfClosed notifies nobody again; callbacks fire only behind a won CAS; a closed stream leaves the table under the lock; Flush/reset refuse non-open streams. " +
			"NOT decided: simultaneous close on both ends under every ordering, which error value a reader observes, half-close data drain (C07).",
		RuleText: "R10.1 census of every store/atomic op on Stream.state with constant resolution of (old,new); R10.2 role of each transition by call-graph reachability; R10.3 value-directed path search in the close routine for each possible old state; R10.4 per callback call site; R10.5 table removal; R10.6 guards of Flush and reset.",
		Run:      runC10,
	})
}

const (
	stOpened, stClosed, stHalfClosed, stLocalClosing = 0, 1, 2, 3
)

// reachUnder: is target reachable from start when branch conditions comparing `v` with a constant
// are decided by assuming v == val (other branches: both ways)?
func reachUnder(start *ssa.BasicBlock, target func(in ssa.Instruction) bool, v ssa.Value, val int64, stop func(in ssa.Instruction) bool) bool {
	return reachUnderF(start, target, func(x ssa.Value) bool { return x == v }, val, stop)
}

// reachUnderF is reachUnder with the tested value given as a predicate (e.g. "a load of field F").
func reachUnderF(start *ssa.BasicBlock, target func(in ssa.Instruction) bool, isV func(ssa.Value) bool, val int64, stop func(in ssa.Instruction) bool) bool {
	seen := map[*ssa.BasicBlock]bool{}
	var walk func(b *ssa.BasicBlock) bool
	walk = func(b *ssa.BasicBlock) bool {
		if seen[b] {
			return false
		}
		seen[b] = true
		for _, in := range b.Instrs {
			if target(in) {
				return true
			}
			if stop != nil && stop(in) {
				return false
			}
		}
		ifi := blockIf(b)
		for i, s := range b.Succs {
			if ifi != nil {
				t, f := evalUnder(ifi.Cond, isV, val, 4)
				if (i == 0 && !t) || (i == 1 && !f) {
					continue
				}
			}
			if walk(s) {
				return true
			}
		}
		return false
	}
	return walk(start)
}

// mustUnderF: on every path from start that is feasible when every value satisfying isV equals val (and whose edges are
// not pruned), an instruction satisfying target is passed before the function returns.
func mustUnderF(start *ssa.BasicBlock, target func(in ssa.Instruction) bool, isV func(ssa.Value) bool, val int64, prune func(b *ssa.BasicBlock, i int) bool) bool {
	seen := map[*ssa.BasicBlock]bool{}
	var walk func(b *ssa.BasicBlock) bool
	walk = func(b *ssa.BasicBlock) bool {
		if seen[b] {
			return true
		}
		seen[b] = true
		for _, in := range b.Instrs {
			if target(in) {
				return true
			}
			if _, isRet := in.(*ssa.Return); isRet {
				return false
			}
		}
		ifi := blockIf(b)
		for i, s := range b.Succs {
			if ifi != nil {
				t, f := evalUnder(ifi.Cond, isV, val, 4)
				if (i == 0 && !t) || (i == 1 && !f) {
					continue
				}
			}
			if prune != nil && prune(b, i) {
				continue
			}
			if !walk(s) {
				return false
			}
		}
		return true
	}
	return walk(start)
}

// evalUnder: which truth values can the boolean cond take when every value satisfying isV equals val?
// Handles comparisons with constants, negation, and the phis that `a || b` / `a && b` / a local
// boolean variable compile to (an edge contributes only if its predecessor block is feasible).
func evalUnder(cond ssa.Value, isV func(ssa.Value) bool, val int64, depth int) (canTrue, canFalse bool) {
	if depth < 0 {
		return true, true
	}
	switch x := cond.(type) {
	case *ssa.Const:
		if x.Value != nil && x.Value.String() == "true" {
			return true, false
		}
		if x.Value != nil && x.Value.String() == "false" {
			return false, true
		}
	case *ssa.UnOp:
		if x.Op == token.NOT {
			t, f := evalUnder(x.X, isV, val, depth-1)
			return f, t
		}
	case *ssa.BinOp:
		for _, k := range []int64{0, 1, 2, 3, 4, 5, 6, 7} {
			kk := k
			isK := func(v ssa.Value) bool { c, ok := constInt(v); return ok && c == kk }
			switch relOn(x, true, isV, isK) {
			case "==":
				return val == kk, val != kk
			case "!=":
				return val != kk, val == kk
			}
		}
	case *ssa.Phi:
		for ei, e := range x.Edges {
			pred := x.Block().Preds[ei]
			if !blockFeasibleUnder(pred, x.Block(), isV, val, depth-1) {
				continue
			}
			t, f := evalUnder(e, isV, val, depth-1)
			canTrue = canTrue || t
			canFalse = canFalse || f
		}
		return
	}
	return true, true
}

// blockFeasibleUnder: can control reach `to` through `pred` under the assumption? Uses the branch
// conditions that dominate pred and the edge pred->to.
func blockFeasibleUnder(pred, to *ssa.BasicBlock, isV func(ssa.Value) bool, val int64, depth int) bool {
	for _, fct := range factsAt(pred) {
		t, f := evalUnder(fct.Cond, isV, val, depth)
		if (fct.Truth && !t) || (!fct.Truth && !f) {
			return false
		}
	}
	if ifi := blockIf(pred); ifi != nil {
		t, f := evalUnder(ifi.Cond, isV, val, depth)
		okEdge := false
		for i, s := range pred.Succs {
			if s == to && ((i == 0 && t) || (i == 1 && f)) {
				okEdge = true
			}
		}
		return okEdge
	}
	return true
}

func runC10(p *P, r *R) {
	for name, want := range map[string]int64{"streamOpened": stOpened, "streamClosed": stClosed, "streamHalfClosed": stHalfClosed, "streamLocalClosing": stLocalClosing} {
		v, ok := p.pkgConstInt(name)
		r.ob("R10.1", "state constant "+name, "", ok && v == want, false, "the rule tables are written against opened=0, closed=1, halfClosed=2, localClosing=3 (found %d, present=%v)", v, ok)
	}
	stName := map[int64]string{0: "opened", 1: "closed", 2: "halfClosed", 3: "localClosing"}
	wh := p.wireHandlers()
	fromWire := p.reachLocal(wh, nil)
	closeExp := p.fn("(*Stream).Close")
	closeFn := p.fn("(*Stream).close")
	if closeExp == nil || closeFn == nil {
		r.fail("R10.2", "anchors (*Stream).Close / (*Stream).close", "", "not found")
		return
	}
	fromClose := p.reachLocal([]*ssa.Function{closeExp}, nil)

	// ---- R10.1 / R10.2 census
	localStarts := map[int64]bool{stOpened: true} // states a local close can find in close()
	nSites := 0
	for _, f := range p.fnList {
		fn := p.fname(f)
		allInstrs(f, func(in ssa.Instruction) {
			if st, ok := in.(*ssa.Store); ok && wordOf(st.Addr) == "Stream.state" {
				nSites++
				_, isAlloc := st.Addr.(*ssa.FieldAddr).X.(*ssa.Alloc)
				c, isC := constInt(st.Val)
				r.ob("R10.1", fn+": plain store to Stream.state", p.ipos(in), isAlloc && isC && c == stOpened, true,
					"only the constructor may store the state (opened); every later change must be a CAS so that two closers cannot both win")
				return
			}
			a := p.atomicOp(in)
			if a == nil || a.Word != "Stream.state" || a.Op == "Load" {
				return
			}
			if _, isCall := in.(*ssa.Call); !isCall {
				return
			}
			nSites++
			if a.Op != "CAS" {
				r.fail("R10.1", fn+": atomic "+a.Op+" on Stream.state", p.ipos(in), "state changes must be compare-and-swap")
				return
			}
			nw, okN := constInt(a.Call.Args[2])
			old, okO := constInt(a.Call.Args[1])
			if !okN {
				r.fail("R10.1", fn+": CAS on Stream.state with a non-constant new state", p.ipos(in), "")
				return
			}
			okT, why := false, ""
			switch nw {
			case stHalfClosed, stLocalClosing:
				okT = okO && old == stOpened
				why = "only opened may move to " + stName[nw]
			case stClosed:
				if okO {
					okT = old != stClosed
				} else {
					// variable old: must be known != closed here
					isOld := func(v ssa.Value) bool { return v == a.Call.Args[1] }
					isClosed := func(v ssa.Value) bool { c, ok := constInt(v); return ok && c == stClosed }
					for _, fct := range factsAt(in.Block()) {
						if relOn(fct.Cond, fct.Truth, isOld, isClosed) == "!=" {
							okT = true
						}
					}
				}
				why = "anything but closed may move to closed"
			default:
				why = "no transition may re-open a stream"
			}
			oldS := "?"
			if okO {
				oldS = stName[old]
			}
			r.ob("R10.1", fn+": transition "+oldS+" -> "+stName[nw]+" is forward-only", p.ipos(in), okT, true, "%s", why)
			// R10.2 ownership
			switch nw {
			case stHalfClosed:
				r.ob("R10.2", fn+": opened -> halfClosed is performed by the remote-close handler only", p.ipos(in), fromWire[f] && !fromClose[f], true,
					"halfClosed means 'the peer closed'; a local Close that parks the stream there is never announced to the peer (close() skips notification for halfClosed)")
			case stLocalClosing:
				r.ob("R10.2", fn+": opened -> localClosing is performed by the exported Close only", p.ipos(in), f == closeExp, true, "")
				localStarts[stLocalClosing] = true
			case stClosed:
				r.ob("R10.2", fn+": -> closed is performed by the close routine only", p.ipos(in), f == closeFn, true, "")
			}
		})
	}
	r.count("R10.1", "writes of Stream.state", nSites, 3)

	// ---- R10.3 the close routine
	casM := p.mAtomic("CAS", "Stream.state")
	var winStart *ssa.BasicBlock
	var oldV ssa.Value
	for _, b := range closeFn.Blocks {
		ifi := blockIf(b)
		if ifi == nil {
			continue
		}
		c, pol := condCall(ifi.Cond)
		if c == nil || !casM.F(c) {
			continue
		}
		win := 0
		if !pol {
			win = 1
		}
		winStart = b.Succs[win]
		oldV = c.Call.Args[1]
	}
	if winStart == nil {
		r.fail("R10.3", "(*Stream).close: CAS to closed", p.pos(closeFn.Pos()), "not found")
		return
	}
	isNotifyCh := p.mCall("(*Stream).safeCloseNotify")
	isClean := p.mCall("(*Stream).clean")
	isCb := func(in ssa.Instruction) bool {
		c, ok := in.(*ssa.Call)
		return ok && c.Call.IsInvoke() && (c.Call.Method.Name() == "OnLocalClose" || c.Call.Method.Name() == "OnRemoteClose")
	}
	_, cons := p.queueRoles()
	_ = cons
	prod, _ := p.queueRoles()
	var prodNames []string
	for _, f := range prod {
		prodNames = append(prodNames, p.fname(f))
	}
	mNotify := mOr(p.mCall(prodNames...), p.mCall("(*Session).waitForSend", "(*Session).waitForSendErr"))
	isPeerNotify := func(in ssa.Instruction) bool {
		if mNotify.F(in) {
			return true
		}
		// a helper of the close routine that notifies on every path
		if g := p.localCallee(in); g != nil && inFns(g, p.family(closeFn)) && p.must(g, mNotify, 1) {
			return true
		}
		return false
	}
	res := p.mustPass(closeFn, []Point{{winStart, -1}}, isClean.F, nil, nil)
	r.ob("R10.3", "(*Stream).close: the CAS winner always cleans (table removal, buffers)", p.pos(closeFn.Pos()), res.OK, true, "%s", p.pathString(res))
	for st := range localStarts {
		name := stName[st]
		r.ob("R10.3", "(*Stream).close: a close that found the stream "+name+" closes the notify channel", p.pos(closeFn.Pos()),
			reachUnder(winStart, isNotifyCh.F, oldV, st, nil), true, "readers blocked in readMore are woken only through closeNotifyCh")
		r.ob("R10.3", "(*Stream).close: a close that found the stream "+name+" reaches a close callback", p.pos(closeFn.Pos()),
			reachUnder(winStart, isCb, oldV, st, nil), true, "")
		// ... on *every* path on which callbacks are installed (whether the session is still alive or not: a session that
		// died reports the close as remote, a live one as local — never as nothing)
		isCbVal := func(v ssa.Value) bool {
			c, ok := v.(*ssa.Call)
			return ok && p.calleeName(&c.Call) == "(*Stream).getCallbacks"
		}
		okAll := mustUnderF(winStart, isCb, func(x ssa.Value) bool { return x == oldV }, st, func(b *ssa.BasicBlock, i int) bool {
			ifi := blockIf(b)
			return ifi != nil && relOn(ifi.Cond, i == 0, isCbVal, isNilConst) == "=="
		})
		r.ob("R10.3", "(*Stream).close: a close that found the stream "+name+" reports it through a close callback on every path with callbacks installed", p.pos(closeFn.Pos()), okAll, true,
			"exactly one of OnLocalClose / OnRemoteClose per stream, also when the session died first")
		r.ob("R10.3", "(*Stream).close: a close that found the stream "+name+" reaches the peer notification", p.pos(closeFn.Pos()),
			reachUnder(winStart, isPeerNotify, oldV, st, nil), true, "the peer must observe end-of-stream")
	}
	r.ob("R10.3", "(*Stream).close: a close that found the stream halfClosed fires no callback again", p.pos(closeFn.Pos()),
		!reachUnder(winStart, isCb, oldV, stHalfClosed, nil), true, "the remote close already fired OnRemoteClose")
	// after the notify channel is closed: every path to a success exit passes the peer notification unless the session is closed
	isSessClosed := func(v ssa.Value) bool {
		c, ok := v.(*ssa.Call)
		return ok && p.calleeName(&c.Call) == "(*Session).IsClosed"
	}
	// an enqueue notifies the peer only if it succeeded: a failed one (queue full) must fall back to the connection event
	mPut := p.mPutFamily()
	mSock := p.mCall("(*Session).waitForSend", "(*Session).waitForSendErr")
	isPutErr := func(v ssa.Value) bool {
		return derivedFrom(v, func(x ssa.Value) bool { c, ok := x.(*ssa.Call); return ok && mPut.F(c) }, 4)
	}
	var reliably func(f *ssa.Function, starts []Point, depth int) (bool, PathRes)
	reliably = func(f *ssa.Function, starts []Point, depth int) (bool, PathRes) {
		return p.findBadPath(f, starts, pathOpts{
			Discharge: func(in ssa.Instruction) bool {
				if mSock.F(in) {
					return true
				}
				if g := p.localCallee(in); g != nil && depth > 0 && inFns(g, p.family(closeFn)) && p.may(g, mNotify, 1) {
					ok, _ := reliably(g, []Point{{g.Blocks[0], -1}}, depth-1)
					return ok
				}
				return false
			},
			EdgeOK: func(b *ssa.BasicBlock, i int) bool {
				ifi := blockIf(b)
				if ifi == nil {
					return true
				}
				c, pol := condCall(ifi.Cond)
				if c != nil && isSessClosed(c) && (i == 0) == pol {
					return false // session closed: nobody to notify
				}
				if relOn(ifi.Cond, i == 0, isPutErr, isNilConst) == "==" {
					return false // the element is in the queue: the peer will see it
				}
				return true
			},
		})
	}
	for _, ni := range findInstrs(closeFn, isNotifyCh) {
		ok, res := reliably(closeFn, []Point{pointOf(ni)}, 2)
		r.ob("R10.3", "(*Stream).close: after the local close every exit has notified the peer (queue element accepted, or else the connection event) unless the session is closed", p.ipos(ni), ok, true, "%s", p.pathString(res))
		cleaned := false
		for _, ci := range findInstrs(closeFn, isClean) {
			if instrDominates(ci, ni) {
				cleaned = true
			}
		}
		r.ob("R10.3", "(*Stream).close: the stream is cleaned before waiters are released", p.ipos(ni), cleaned, true, "")
	}
	// at most one callback per close
	var cbs []ssa.Instruction
	allInstrs(closeFn, func(in ssa.Instruction) {
		if isCb(in) {
			cbs = append(cbs, in)
		}
	})
	dup := false
	for _, a := range cbs {
		for _, b := range cbs {
			if p.reaches(a, b, nil) {
				dup = true
			}
		}
	}
	r.ob("R10.3", "(*Stream).close: at most one close callback per close", p.pos(closeFn.Pos()), !dup && len(cbs) > 0, true, "")
	// the status enqueued is streamClosed
	okStatus := false
	for _, g := range p.family(closeFn) {
		for _, si := range findInstrs(g, mStoreWord("queueElement.status")) {
			if c, ok := constInt(si.(*ssa.Store).Val); ok && c == stClosed {
				okStatus = true
			}
		}
	}
	r.ob("R10.3", "(*Stream).close: the queue element announces streamClosed", p.pos(closeFn.Pos()), okStatus, true, "")

	// ---- R10.7 which callback: a local close reports OnLocalClose unless the session died (then OnRemoteClose);
	// the remote-close handler reports OnRemoteClose
	isSessClosedCall := func(v ssa.Value) bool {
		c, ok := v.(*ssa.Call)
		return ok && p.calleeName(&c.Call) == "(*Session).IsClosed"
	}
	for _, f := range p.fnList {
		allInstrs(f, func(in ssa.Instruction) {
			c, ok := in.(*ssa.Call)
			if !ok || !c.Call.IsInvoke() {
				return
			}
			m := c.Call.Method.Name()
			if m != "OnLocalClose" && m != "OnRemoteClose" {
				return
			}
			if inFns(f, p.family(closeFn)) {
				// decided by the session's liveness
				var onClosedEdge, decided bool
				for _, fct := range factsAt(in.Block()) {
					cc, pol := condCall(fct.Cond)
					if cc != nil && isSessClosedCall(cc) {
						decided = true
						onClosedEdge = fct.Truth == pol
					}
				}
				want := m == "OnRemoteClose"
				r.ob("R10.7", p.fname(f)+": "+m+" is reported on the right edge of the session-liveness test", p.ipos(in), decided && onClosedEdge == want, true,
					"a local close is OnLocalClose; only when the whole session died is it reported as OnRemoteClose")
			} else {
				r.ob("R10.7", p.fname(f)+": the remote-close handler reports OnRemoteClose", p.ipos(in), m == "OnRemoteClose" && fromWire[f] && !fromClose[f], true, "")
			}
		})
	}

	// ---- R10.8 a Close() that met a running callback is always finished: the callback goroutine decides by the
	// close request (callbackCloseState), not by the state it happens to find (which the peer may have changed)
	r.ob("R10.8", "a Close() issued while a callback runs is finished by the callback goroutine whatever state the stream is in", p.pos(closeExp.Pos()), c11DeferredCloseFinished(p), true,
		"Close() returned nil: the stream must end up closed and unregistered even if the peer half-closed it first")

	// ---- R10.4 callbacks only behind a won CAS
	nCb := 0
	for _, f := range p.fnList {
		allInstrs(f, func(in ssa.Instruction) {
			if !isCb(in) {
				return
			}
			nCb++
			r.ob("R10.4", p.fname(f)+": close callback fires only behind a won state CAS", p.ipos(in), p.guardedByCall(in, casM, true), true,
				"a word that leaves a state once makes the callback fire at most once")
		})
	}
	r.count("R10.4", "close callback call sites", nCb, 3)

	// ---- R10.5 table removal
	cl := p.fn("(*Stream).clean")
	osc := p.fn("(*Session).onStreamClose")
	if cl == nil || osc == nil {
		r.fail("R10.5", "anchors (*Stream).clean / (*Session).onStreamClose", "", "not found")
	} else {
		r.ob("R10.5", "(*Stream).clean: removes the stream from the session table", p.pos(cl.Pos()), p.must(cl, p.mCall("(*Session).onStreamClose"), 0), true, "")
		held, _ := p.heldBefore(osc, p.mutexRegion("Session.streamLock"), false)
		okDel := false
		allInstrs(osc, func(in ssa.Instruction) {
			if c, ok := in.(*ssa.Call); ok {
				if b, ok := c.Call.Value.(*ssa.Builtin); ok && b.Name() == "delete" && isLoadOf(c.Call.Args[0], "Session.streams") && held[in] {
					okDel = true
				}
			}
		})
		r.ob("R10.5", "(*Session).onStreamClose: deletes the table entry under streamLock", p.pos(osc.Pos()), okDel && p.must(osc, M{ID: "del", F: func(in ssa.Instruction) bool {
			c, ok := in.(*ssa.Call)
			if !ok {
				return false
			}
			b, ok := c.Call.Value.(*ssa.Builtin)
			return ok && b.Name() == "delete"
		}}, 0), true, "")
	}

	// ---- R10.6 operations after close fail
	if fl := p.fn("(*Stream).Flush"); fl != nil {
		isState := func(v ssa.Value) bool {
			c, ok := v.(*ssa.Call)
			return ok && p.calleeName(&c.Call) == "(*Stream).getStreamState"
		}
		isOpen := func(v ssa.Value) bool { c, ok := constInt(v); return ok && c == stOpened }
		n := 0
		check := func(in ssa.Instruction, what string) {
			n++
			ok := false
			for _, fct := range factsAt(in.Block()) {
				if relOn(fct.Cond, fct.Truth, isState, isOpen) == "==" {
					ok = true
				}
			}
			r.ob("R10.6", "(*Stream).Flush: "+what+" only when the stream is open", p.ipos(in), ok, true, "after Close every later operation fails with a closed-stream error")
		}
		for _, ci := range findInstrs(fl, p.mPutFamily()) {
			check(ci, "enqueues")
		}
		for _, ci := range findInstrs(fl, p.mCall("(*Stream).writeFallback")) {
			check(ci, "sends through the connection")
		}
		r.count("R10.6", "send sites in Flush", n, 2)
	} else {
		r.fail("R10.6", "anchor (*Stream).Flush", "", "not found")
	}
	if rs := p.fn("(*Stream).reset"); rs != nil {
		for _, ret := range returnsOf(rs) {
			if !isNilConst(lastResult(ret)) {
				continue
			}
			r.ob("R10.6", "(*Stream).reset: a stream is handed back for reuse only if it is open", p.ipos(ret), p.guardedByCall(ret, p.mCall("(*Stream).IsOpen"), true), true, "")
		}
	}
	if rm := p.fn("(*Stream).readMore"); rm != nil {
		// a reader that finds nothing buffered on a non-open stream gets an error, not a wait
		ok := false
		for _, ret := range returnsOf(rm) {
			if isErrorExit(ret) && p.guardedByCall(ret, p.mCall("(*Stream).IsOpen"), false) {
				ok = true
			}
		}
		r.ob("R10.6", "(*Stream).readMore: an empty non-open stream yields an end/closed error before any wait", p.pos(rm.Pos()), ok, true, "")
	}
	_ = token.ADD
	// R10.9 the close notification travels the channel the stream's data travels (sticky fallback mark set whenever data
	// left through the connection; close consults it): otherwise the peer sees end-of-stream before flushed data
	// (shared with C07 R07.2-R07.4)
	borrow(p, r, "C07", runC07, map[string]string{"R07.2": "R10.9", "R07.3": "R10.9", "R07.4": "R10.9"}, nil)
	// R10.10 after Close every later operation fails — it does not crash: no allocation from the shared memory for a
	// closed stream (shared with C14 R14.9)
	borrow(p, r, "C14", runC14, map[string]string{"R14.9": "R10.10"}, nil)
}
