package main

import (
	"golang.org/x/tools/go/ssa"
)

func init() {
	register(&property{
		ID: "C08",
		Explanation: "Decides the ownership discipline behind zero-copy reads on every path: a reader entry point that returns a slice aliasing shared memory has set the pinned mark first; a consumed front slice is recycled by reader code only on the not-pinned edge and is parked in the pinned list on the other; " +
			"the pinned mark is cleared only after that decision, by the release role or by clean; pinned slices leave the pinned list only through the release role, whose loop returns every slice; ReleasePreviousRead / ReleaseReadAndReuse / buffer recycle (stream close) always run it; the reuse path resets the front slice only after the release and only when it is fully consumed. " +
			"NOT decided: that the contents stay bit-identical (depends on C01: nobody else owns the slot), only that this endpoint neither recycles nor resets the slice early.",
		RuleText: "R08.1 per return of a []byte in the BufferReader methods of linkedBuffer (alias = flows from bufferSlice.read/peek through extract/phi only); R08.2 per recycleBuffer call in functions reachable from reader entry points; R08.3 census of pinnedList.popFront callers and of stores to currentPinned; R08.4 must-pass-through in the release loop and in its callers; R08.5 dominance in the reuse path.",
		Run:      runC08,
	})
}

func (p *P) readerEntries() []*ssa.Function {
	var out []*ssa.Function
	for _, n := range []string{"ReadBytes", "ReadByte", "ReadString", "Peek", "Discard", "read"} {
		if f := p.fn("(*linkedBuffer)." + n); f != nil {
			out = append(out, f)
		}
	}
	return out
}

// fromListPop: v is the result of popFront() on the list stored in field key (e.g. "linkedBuffer.sliceList").
func (p *P) fromListPop(v ssa.Value, listField string) bool {
	c, ok := v.(*ssa.Call)
	if !ok || p.calleeName(&c.Call) != "(*sliceList).popFront" {
		return false
	}
	return isLoadOf(c.Call.Args[0], listField)
}

func storeBoolTo(in ssa.Instruction, word string) (val bool, ok bool) {
	st, isSt := in.(*ssa.Store)
	if !isSt || wordOf(st.Addr) != word {
		return false, false
	}
	c, isC := st.Val.(*ssa.Const)
	if !isC || c.Value == nil {
		return false, false
	}
	return c.Value.String() == "true", true
}

func runC08(p *P, r *R) {
	entries := p.readerEntries()
	r.role("reader entry points", p.names(entries))
	r.count("R08.1", "reader entry points", len(entries), 6)
	isReadCall := func(v ssa.Value) bool {
		c, ok := v.(*ssa.Call)
		if !ok {
			return false
		}
		n := p.calleeName(&c.Call)
		return n == "(*bufferSlice).read" || n == "(*bufferSlice).peek"
	}
	var aliasVia func(v ssa.Value, d int) bool
	aliasVia = func(v ssa.Value, d int) bool {
		if d < 0 || v == nil {
			return false
		}
		if isReadCall(v) {
			return true
		}
		switch x := v.(type) {
		case *ssa.Extract:
			return aliasVia(x.Tuple, d-1)
		case *ssa.Phi:
			for _, e := range x.Edges {
				if e != v && aliasVia(e, d-1) {
					return true
				}
			}
		case *ssa.Slice:
			return aliasVia(x.X, d-1)
		}
		return false
	}
	// R08.1
	nAlias := 0
	for _, f := range entries {
		fn := p.fname(f)
		for _, ret := range returnsOf(f) {
			if len(ret.Results) == 0 || !isByteSlice(ret.Results[0].Type()) {
				continue
			}
			v := resultOf(ret, 0)
			if !aliasVia(v, 4) {
				continue
			}
			nAlias++
			pinned := false
			allInstrs(f, func(in ssa.Instruction) {
				if val, ok := storeBoolTo(in, "linkedBuffer.currentPinned"); ok && val && instrDominates(in, ret) {
					pinned = true
				}
			})
			r.ob("R08.1", fn+": a result that aliases shared memory pins the front slice first", p.ipos(ret), pinned, true,
				"without the pinned mark the next readNextSlice recycles the slice while the caller still holds the bytes")
			// the pinned mark describes the FRONT slice: the aliased bytes must be the front slice's
			isFrontOnly := true
			var srcs []ssa.Value
			var collect func(v ssa.Value, d int)
			collect = func(v ssa.Value, d int) {
				if d < 0 || v == nil {
					return
				}
				switch x := v.(type) {
				case *ssa.Extract:
					collect(x.Tuple, d-1)
				case *ssa.Phi:
					for _, e := range x.Edges {
						if e != v {
							collect(e, d-1)
						}
					}
				case *ssa.Slice:
					collect(x.X, d-1)
				case *ssa.Call:
					if isReadCall(x) {
						srcs = append(srcs, x.Call.Args[0])
					}
				}
			}
			collect(v, 5)
			for _, recv := range srcs {
				c, okc := recv.(*ssa.Call)
				if !okc || p.calleeName(&c.Call) != "(*sliceList).front" || !isLoadOf(c.Call.Args[0], "linkedBuffer.sliceList") {
					isFrontOnly = false
				}
			}
			r.ob("R08.1", fn+": the aliased bytes belong to the front slice (the one the pinned mark protects)", p.ipos(ret), isFrontOnly && len(srcs) > 0, true,
				"a zero-copy view of any other slice is not covered by currentPinned: that slice is recycled when a non-pinning read consumes it")
		}
	}
	r.count("R08.1", "zero-copy (aliasing) returns", nAlias, 2)

	// R08.2
	reach := p.reachLocal(entries, nil)
	recyc := p.mCall("(*bufferManager).recycleBuffer")
	n2 := 0
	var readerFns []string
	for f := range reach {
		readerFns = append(readerFns, p.fname(f))
		fn := p.fname(f)
		for _, ri := range findInstrs(f, recyc) {
			rc := ri.(*ssa.Call)
			x := rc.Call.Args[1]
			if !p.fromListPop(x, "linkedBuffer.sliceList") {
				// provenance other than the buffer's own main list: not a slice handed to the user
				r.note("reader-reachable recycle of a slice not popped from the main list in %s at %s (provenance: incoming/other)", fn, p.ipos(ri))
				continue
			}
			n2++
			isPinned := func(v ssa.Value) bool { return isLoadOf(v, "linkedBuffer.currentPinned") }
			onFalse, parkOK := false, false
			for _, fct := range factsAt(rc.Block()) {
				c, neg := stripNot(fct.Cond)
				if isPinned(c) && (fct.Truth == neg) { // currentPinned is false on this edge
					onFalse = true
					// the other edge parks x in the pinned list
					other := fct.If.Block().Succs[0]
					if fct.Truth {
						other = fct.If.Block().Succs[1]
					}
					for _, in := range other.Instrs {
						if pc, ok := in.(*ssa.Call); ok && p.calleeName(&pc.Call) == "(*sliceList).pushBack" &&
							isLoadOf(pc.Call.Args[0], "linkedBuffer.pinnedList") && pc.Call.Args[1] == x {
							parkOK = true
						}
					}
				}
			}
			r.ob("R08.2", fn+": a consumed front slice is recycled only when it is not pinned", p.ipos(rc), onFalse, true,
				"recycling a slice whose bytes were handed out zero-copy is the use-after-free this property is about")
			r.ob("R08.2", fn+": a pinned consumed slice is parked in the pinned list", p.ipos(rc), parkOK, true, "the pinned edge must keep the slice until the release")
			// the pinned mark that the decision tests is read before any clearing of it
			cleared := false
			for _, fct := range factsAt(rc.Block()) {
				c, _ := stripNot(fct.Cond)
				if !isPinned(c) {
					continue
				}
				ld, okl := c.(ssa.Instruction)
				if !okl {
					continue
				}
				allInstrs(f, func(in ssa.Instruction) {
					if val, ok := storeBoolTo(in, "linkedBuffer.currentPinned"); ok && !val && p.reaches(in, ld, nil) {
						cleared = true
					}
				})
			}
			r.ob("R08.2", fn+": the pinned mark tested by the recycle decision is read before it is cleared", p.ipos(rc), !cleared, true, "")
		}
		// reader code must not pop the main list without going through the decision
		for _, ci := range findInstrs(f, p.mCall("(*sliceList).popFront")) {
			c := ci.(*ssa.Call)
			if !isLoadOf(c.Call.Args[0], "linkedBuffer.sliceList") {
				continue
			}
			used := false
			for _, ri := range findInstrs(f, recyc) {
				if ri.(*ssa.Call).Call.Args[1] == ssa.Value(c) {
					used = true
				}
			}
			r.ob("R08.2", fn+": a slice popped from the main list by reader code meets the pinned decision", p.ipos(ci), used, true, "")
		}
	}
	r.role("reader-reachable functions", readerFns)
	r.count("R08.2", "reader-side recycle sites of main-list slices", n2, 1)

	// R08.3 census: pinnedList.popFront callers and their callers; stores to currentPinned
	var releaseFns []*ssa.Function
	for _, f := range p.fnList {
		for _, ci := range findInstrs(f, p.mCall("(*sliceList).popFront")) {
			if isLoadOf(ci.(*ssa.Call).Call.Args[0], "linkedBuffer.pinnedList") && !inFns(f, releaseFns) {
				releaseFns = append(releaseFns, f)
			}
		}
	}
	r.role("release role (pops the pinned list)", p.names(releaseFns))
	r.count("R08.3", "release-role functions", len(releaseFns), 1)
	allowedCallers := map[string]string{
		"(*linkedBuffer).ReleasePreviousRead":           "the user declares earlier results dead",
		"(*linkedBuffer).releasePreviousReadAndReserve": "ReleaseReadAndReuse",
		"(*linkedBuffer).recycle":                       "stream close / buffer recycle",
	}
	for _, rel := range releaseFns {
		for _, f := range p.fnList {
			for _, ci := range findInstrs(f, p.mCall(p.fname(rel))) {
				_, ok := allowedCallers[p.fname(f)]
				r.ob("R08.3", p.fname(f)+": runs the pinned-list release", p.ipos(ci), ok, true,
					"pinned slices may be released only by ReleasePreviousRead, ReleaseReadAndReuse or when the buffer is recycled on close")
			}
		}
		if reach[rel] {
			r.fail("R08.3", p.fname(rel)+": release role is reachable from a reader entry point", p.pos(rel.Pos()), "reads must never release pinned slices")
		}
	}
	for _, f := range p.fnList {
		fn := p.fname(f)
		allInstrs(f, func(in ssa.Instruction) {
			val, ok := storeBoolTo(in, "linkedBuffer.currentPinned")
			if !ok {
				if st, isSt := in.(*ssa.Store); isSt && wordOf(st.Addr) == "linkedBuffer.currentPinned" {
					r.fail("R08.3", fn+": non-constant store to currentPinned", p.ipos(in), "")
				}
				return
			}
			if val {
				r.ob("R08.3", fn+": sets the pinned mark", p.ipos(in), inFns(f, entries), true, "only zero-copy reader entry points pin")
			} else {
				okc := inFns(f, releaseFns) || fn == "(*linkedBuffer).clean" || fn == "(*linkedBuffer).readNextSlice" || reach[f]
				r.ob("R08.3", fn+": clears the pinned mark", p.ipos(in), okc, true, "")
			}
		})
	}

	// R08.4 release loop returns every slice; release callers always run it
	for _, rel := range releaseFns {
		fn := p.fname(rel)
		for _, ci := range findInstrs(rel, p.mCall("(*sliceList).popFront")) {
			c := ci.(*ssa.Call)
			disp := func(in ssa.Instruction) bool {
				cc, ok := in.(*ssa.Call)
				if !ok {
					return false
				}
				n := p.calleeName(&cc.Call)
				return (n == "(*bufferManager).recycleBuffer" || n == "putBackBufferSlice") && cc.Call.Args[len(cc.Call.Args)-1] == ssa.Value(c)
			}
			// every path from the pop back to the loop head or to an exit passes a disposal
			res := p.mustPass(rel, []Point{pointOf(c)}, disp, func(b *ssa.BasicBlock, i int) bool { return true }, nil)
			// also paths that loop: a second pop without disposal
			again := p.reachesWithout(pointOf(c), c, disp, nil)
			r.ob("R08.4", fn+": every slice taken off the pinned list is recycled or returned to the pool", p.ipos(c), res.OK && !again, true, "%s", p.pathString(res))
		}
		// loop until empty: every return is on the size()==0 edge (or the early-return on empty)
		for _, ret := range returnsOf(rel) {
			ok := false
			isSize := func(v ssa.Value) bool {
				c, okc := v.(*ssa.Call)
				return okc && p.calleeName(&c.Call) == "(*sliceList).size" && isLoadOf(c.Call.Args[0], "linkedBuffer.pinnedList")
			}
			isZero := func(v ssa.Value) bool { c, okc := constInt(v); return okc && c == 0 }
			for _, fct := range factsAt(ret.Block()) {
				if rel := relOn(fct.Cond, fct.Truth, isSize, isZero); rel == "==" || rel == "<=" {
					ok = true
				}
			}
			r.ob("R08.4", fn+": the release ends only when the pinned list is empty", p.ipos(ret), ok, true, "")
		}
		for caller := range allowedCallers {
			f := p.fn(caller)
			if f == nil {
				r.fail("R08.4", "anchor "+caller, "", "function not found")
				continue
			}
			r.ob("R08.4", caller+": always releases the pinned slices", p.pos(f.Pos()), p.must(f, p.mCallD(fn), 1), true,
				"after ReleasePreviousRead / ReleaseReadAndReuse / close the buffers must be available again")
		}
	}

	// R08.5 reuse path
	if f := p.fn("(*linkedBuffer).releasePreviousReadAndReserve"); f != nil {
		for _, ri := range findInstrs(f, p.mCall("(*bufferSlice).reset")) {
			afterRelease := false
			for _, rel := range releaseFns {
				for _, ci := range findInstrs(f, p.mCall(p.fname(rel))) {
					if instrDominates(ci, ri) {
						afterRelease = true
					}
				}
			}
			lenZero, oneSlice := false, false
			for _, fct := range factsAt(ri.Block()) {
				isLen := func(v ssa.Value) bool { return isLoadOf(v, "linkedBuffer.len") }
				isSz := func(v ssa.Value) bool {
					c, okc := v.(*ssa.Call)
					return okc && p.calleeName(&c.Call) == "(*sliceList).size"
				}
				isK := func(k int64) func(ssa.Value) bool {
					return func(v ssa.Value) bool { c, okc := constInt(v); return okc && c == k }
				}
				if relOn(fct.Cond, fct.Truth, isLen, isK(0)) == "==" {
					lenZero = true
				}
				if relOn(fct.Cond, fct.Truth, isSz, isK(1)) == "==" {
					oneSlice = true
				}
			}
			r.ob("R08.5", "releasePreviousReadAndReserve: the front slice is reset for reuse only after the release, when nothing is unread and it is the only slice", p.ipos(ri),
				afterRelease && lenZero && oneSlice, true, "release=%v len==0:%v size()==1:%v", afterRelease, lenZero, oneSlice)
		}
	} else {
		r.fail("R08.5", "anchor (*linkedBuffer).releasePreviousReadAndReserve", "", "function not found")
	}
	c08ReaderBufferRecycle(p, r)
	// R08.7 read results of socket-fallback frames stay valid too: the slice handed to the stream is a copy, never a
	// window of the connection's reused read buffer (shared with C06 R06.5 / C18 R18.6)
	noEscapeOfEventBuffer(p, r, "R08.7")
}

// c08ReaderBufferRecycle (R08.6): recycling a stream's whole receive buffer returns the reader's pinned slices too, so
// it may happen only where no reader can still hold a zero-copy result: in the close routine (the user closed the
// stream), or — on the receive path — on the edge where the stream's state is known to be closed. A peer-closed
// (half-closed) stream still has a reader that may be holding results of ReadBytes / Peek.
func c08ReaderBufferRecycle(p *P, r *R) {
	closeFn := p.fn("(*Stream).close")
	if closeFn == nil {
		r.fail("R08.6", "anchor (*Stream).close", "", "not found")
		return
	}
	closeFam := p.family(closeFn)
	closedV, _ := p.pkgConstInt("streamClosed")
	isState := func(v ssa.Value) bool {
		c, ok := v.(*ssa.Call)
		if !ok {
			return false
		}
		if p.calleeName(&c.Call) == "(*Stream).getStreamState" {
			return true
		}
		a := p.atomicOp(c)
		return a != nil && a.Op == "Load" && a.Word == "Stream.state"
	}
	isClosed := func(v ssa.Value) bool { c, ok := constInt(v); return ok && c == closedV }
	knownClosedAt := func(in ssa.Instruction) bool {
		for _, fct := range factsAt(in.Block()) {
			if relOn(fct.Cond, fct.Truth, isState, isClosed) == "==" {
				return true
			}
		}
		return false
	}
	isRecvRecycle := func(in ssa.Instruction) bool {
		c, ok := in.(*ssa.Call)
		return ok && p.calleeName(&c.Call) == "(*linkedBuffer).recycle" && isLoadOf(c.Call.Args[0], "Stream.recvBuf")
	}
	n := 0
	for _, f := range p.fnList {
		for _, ci := range findInstrs(f, M{ID: "recycle recvBuf", F: isRecvRecycle}) {
			n++
			fn := p.fname(f)
			ok, why := false, ""
			switch {
			case inFns(f, closeFam):
				ok, why = true, "close routine: the user closed the stream"
			case knownClosedAt(ci):
				ok, why = true, "on the state == streamClosed edge"
			default:
				// a small helper: judged at its call sites
				sites := 0
				all := true
				for _, g := range p.fnList {
					for _, si := range findInstrs(g, p.mCall(p.fname(f))) {
						sites++
						if !inFns(g, closeFam) && !knownClosedAt(si) {
							all = false
						}
					}
				}
				if sites > 0 && all {
					ok, why = true, "helper called only from the close routine / on the closed edge"
				}
			}
			r.ob("R08.6", fn+": the reader's whole buffer (pinned slices included) is recycled only for a closed stream", p.ipos(ci), ok, true, "%s", why)
		}
	}
	r.count("R08.6", "recycles of a stream's receive buffer", n, 2)
}
