package main

import (
	"go/types"

	"golang.org/x/tools/go/ssa"
)

func init() {
	register(&property{
		ID: "C17",
		Explanation: "Decides the shape of the session manager's healing loop: the watcher goroutine (the one that waits on a pooled session's close channel) closes the pool when the session is lost; a failed reconnect leads to another attempt (never to giving up), the only ways out of the rebuild loop are success, the epoch-changed edge and cancellation; the reconnect happens on the epoch-unchanged edge, under the manager lock, so a pool replaced by a hot restart is not rebuilt a second time; the rebuilt session is stored into the pool; every wait of the watcher has a ctx.Done() arm or is a bounded sleep, and Close cancels before it waits; calls made while no session is available contain no blocking operation and OpenStream reports the shutdown error. " +
			"NOT decided: timing relative to the rebuild interval, repeated losses, interplay schedules with hot restart.",
		RuleText: "R17.1 path search from the failure edge of the reconnect call; R17.2 dominance of the reconnect by the epoch test and the lock region; R17.3 escape arms (with C11 R11.1) and cancel-before-wait; R17.4 absence of blocking instructions in the pool getter; R17.5 the watched pool value is a table read that is re-executed on the loop path back from the wait.",
		Run:      runC17,
	})
}

func runC17(p *P, r *R) {
	// watcher role: closures containing a blocking select with an arm on (*Session).CloseChan()
	var watchers []*ssa.Function
	for _, f := range p.fnList {
		isW := false
		allInstrs(f, func(in ssa.Instruction) {
			if s, ok := in.(*ssa.Select); ok && s.Blocking {
				for _, st := range s.States {
					if c, ok := st.Chan.(*ssa.Call); ok && p.calleeName(&c.Call) == "(*Session).CloseChan" {
						isW = true
					}
				}
			}
		})
		if isW {
			watchers = append(watchers, f)
		}
	}
	r.role("session watcher goroutines", p.names(watchers))
	r.count("R17.1", "watcher goroutines", len(watchers), 1)
	watcherFollowsTable(p, r, "R17.5")
	rebuild := p.mCall("newClientSession")
	for _, w := range watchers {
		fn := p.fname(w)
		var outer *ssa.Select
		allInstrs(w, func(in ssa.Instruction) {
			if s, ok := in.(*ssa.Select); ok && s.Blocking {
				for _, st := range s.States {
					if c, ok := st.Chan.(*ssa.Call); ok && p.calleeName(&c.Call) == "(*Session).CloseChan" {
						outer = s
					}
				}
			}
		})
		// the loss arm closes the pool
		lossIdx := int64(-1)
		for i, st := range outer.States {
			if c, ok := st.Chan.(*ssa.Call); ok && p.calleeName(&c.Call) == "(*Session).CloseChan" {
				lossIdx = int64(i)
			}
		}
		okClose := false
		for _, b := range w.Blocks {
			for i := range b.Succs {
				if s2, k, eq := selectEdge(b, i); s2 == outer && eq && k == lossIdx {
					// on this arm, before any reconnect, the pool is closed (unless a hot restart is in progress)
					for _, rc := range findInstrs(w, rebuild) {
						bad := p.reachesWithout(Point{b.Succs[i], -1}, rc, func(in ssa.Instruction) bool { return p.mCall("(*streamPool).close").F(in) }, nil)
						okClose = !bad
					}
				}
			}
		}
		r.ob("R17.1", fn+": a lost session's pool is closed before it is rebuilt", p.ipos(outer), okClose, true, "")
		// ctx.Done arms
		isDoneArm := func(b *ssa.BasicBlock, i int) bool {
			s2, k, eq := selectEdge(b, i)
			return s2 != nil && eq && isCtxDone(s2.States[k].Chan)
		}
		rcs := findInstrs(w, rebuild)
		r.count("R17.1", "reconnect call sites in "+fn, len(rcs), 1)
		for _, rc := range rcs {
			c := rc.(*ssa.Call)
			var errv ssa.Value
			for _, ref := range *c.Referrers() {
				if e, ok := ref.(*ssa.Extract); ok && e.Index == 1 {
					errv = e
				}
			}
			// start: the failure edge
			var starts []Point
			for _, b := range w.Blocks {
				for i := range b.Succs {
					if errv != nil && edgeKnownNonNil(b, i, errv) {
						starts = append(starts, Point{b.Succs[i], -1})
					}
				}
			}
			r.count("R17.1", "failure edges of the reconnect in "+fn, len(starts), 1)
			okRetry, res := p.findBadPath(w, starts, pathOpts{
				Discharge: func(in ssa.Instruction) bool { return in == rc }, // another attempt
				Bad: func(in ssa.Instruction) bool {
					if in == ssa.Instruction(outer) {
						return true // gave up: back to watching a dead session
					}
					_, isRet := in.(*ssa.Return)
					return isRet
				},
				EdgeOK: func(b *ssa.BasicBlock, i int) bool {
					if isDoneArm(b, i) {
						return false // cancellation is a legitimate way out
					}
					// the epoch-changed edge is a legitimate way out as well
					ifi := blockIf(b)
					if ifi != nil {
						if v, ok := ifi.Cond.(*ssa.BinOp); ok && isLoadOf(v.X, "Session.epochID") && isLoadOf(v.Y, "Session.epochID") {
							return relOn(ifi.Cond, i == 0, func(x ssa.Value) bool { return x == v.X }, func(x ssa.Value) bool { return x == v.Y }) != "!="
						}
					}
					return true
				},
			})
			r.ob("R17.1", fn+": a failed reconnect is followed by another attempt (the loop only ends on success, epoch change or cancellation)", p.ipos(rc), okRetry, true,
				"giving up after the first failure leaves the pool dead until the process restarts: %s", p.pathString(res))
			// a wait separates the attempts
			waited := false
			allInstrs(w, func(in ssa.Instruction) {
				if s, ok := in.(*ssa.Select); ok && s.Blocking && s != outer {
					hasTimer, hasDone := false, false
					for _, st := range s.States {
						if isTimerChan(st.Chan, 1) {
							hasTimer = true
						}
						if isCtxDone(st.Chan) {
							hasDone = true
						}
					}
					if hasTimer && hasDone && instrDominates(in, rc) {
						waited = true
					}
				}
			})
			r.ob("R17.1", fn+": every attempt is preceded by the rebuild-interval wait, which cancellation interrupts", p.ipos(rc), waited, true, "")
			// success stores the new session into the pool
			okStore := false
			for _, si := range findInstrs(w, p.mCall("(*sync/atomic.Value).Store")) {
				sc := si.(*ssa.Call)
				if fa, ok := sc.Call.Args[0].(*ssa.FieldAddr); ok && fieldKey(fa) == "streamPool.session" {
					if mi, ok := sc.Call.Args[1].(*ssa.MakeInterface); ok {
						if e, ok := mi.X.(*ssa.Extract); ok && e.Tuple == ssa.Value(c) && e.Index == 0 {
							for _, fct := range factsAt(si.Block()) {
								if relOn(fct.Cond, fct.Truth, func(x ssa.Value) bool { return x == errv }, isNilConst) == "==" {
									okStore = true
								}
							}
						}
					}
				}
			}
			r.ob("R17.1", fn+": the rebuilt session is installed in the pool on the success edge", p.ipos(rc), okStore, true, "GetStream works again after the rebuild")

			// ---- R17.2
			held, _ := p.heldBefore(w, p.mutexRegion("SessionManager.RWMutex"), false)
			onUnchanged := false
			for _, fct := range factsAt(rc.Block()) {
				if v, ok := fct.Cond.(*ssa.BinOp); ok && isLoadOf(v.X, "Session.epochID") && isLoadOf(v.Y, "Session.epochID") {
					if relOn(fct.Cond, fct.Truth, func(x ssa.Value) bool { return x == v.X }, func(x ssa.Value) bool { return x == v.Y }) == "==" {
						onUnchanged = true
					}
				}
			}
			r.ob("R17.2", fn+": the reconnect happens only when the pool was not replaced by a hot restart (epoch unchanged)", p.ipos(rc), onUnchanged, true, "")
			r.ob("R17.2", fn+": the epoch test and the reconnect are under the manager lock", p.ipos(rc), held[rc], true, "")
		}
		// ---- R17.3 every wait has a cancellation arm
		allInstrs(w, func(in ssa.Instruction) {
			if s, ok := in.(*ssa.Select); ok && s.Blocking {
				has := false
				for _, st := range s.States {
					if isCtxDone(st.Chan) {
						has = true
					}
				}
				r.ob("R17.3", fn+": watcher wait has a ctx.Done() arm", p.ipos(in), has, true, "closing the manager stops all of this")
				// the Done arm returns
				for _, b := range w.Blocks {
					for i := range b.Succs {
						if s2, _, _ := selectEdge(b, i); s2 == s && isDoneArm(b, i) {
							_, isRet := b.Succs[i].Instrs[len(b.Succs[i].Instrs)-1].(*ssa.Return)
							r.ob("R17.3", fn+": cancellation ends the watcher", p.ipos(in), isRet, true, "")
						}
					}
				}
			}
		})
	}
	// the rebuild-interval timer is re-armed for every attempt
	isWatcher := func(f *ssa.Function) bool { return inFns(f, watchers) }
	r.count("R17.1", "rebuild-interval waits that are repeated", timerRearmed(p, r, "R17.1", isWatcher), 1)
	if cl := p.fn("(*SessionManager).Close"); cl != nil {
		var cancel, wait ssa.Instruction
		allInstrs(cl, func(in ssa.Instruction) {
			c, ok := in.(*ssa.Call)
			if !ok {
				return
			}
			if c.Call.StaticCallee() == nil && !c.Call.IsInvoke() && isLoadOf(c.Call.Value, "SessionManager.cancelFunc") {
				cancel = in
			}
			if p.calleeName(&c.Call) == "(*sync.WaitGroup).Wait" {
				wait = in
			}
		})
		r.ob("R17.3", "SessionManager.Close: cancels the watchers before waiting for them", p.pos(cl.Pos()), cancel != nil && wait != nil && instrDominates(cancel, wait), true, "")
		okPools := false
		for _, ci := range findInstrs(cl, p.mCall("(*streamPool).close")) {
			if wait != nil && instrDominates(wait, ci) {
				okPools = true
			}
		}
		r.ob("R17.3", "SessionManager.Close: closes every pool after the watchers stopped", p.pos(cl.Pos()), okPools, true, "")
	} else {
		r.fail("R17.3", "anchor (*SessionManager).Close", "", "not found")
	}

	// ---- R17.4
	if g := p.fn("(*streamPool).getOrOpenStream"); g != nil {
		reach := p.reachLocal([]*ssa.Function{g}, func(f *ssa.Function) bool {
			n := p.fname(f)
			return n == "(*Stream).Close" || n == "(*Stream).close" // closing a discarded stream may wait for its callbacks (C11 class d)
		})
		blocking := ""
		for f := range reach {
			if n := p.fname(f); n == "(*Stream).Close" || n == "(*Stream).close" {
				continue
			}
			allInstrs(f, func(in ssa.Instruction) {
				switch x := in.(type) {
				case *ssa.Select:
					if x.Blocking {
						blocking = p.fname(f) + " select at " + p.ipos(in)
					}
				case *ssa.Send:
					blocking = p.fname(f) + " send at " + p.ipos(in)
				case *ssa.UnOp:
					if x.Op.String() == "<-" {
						blocking = p.fname(f) + " receive at " + p.ipos(in)
					}
				}
			})
		}
		r.ob("R17.4", "getOrOpenStream: no blocking channel operation between a lost session and the caller's error", p.pos(g.Pos()), blocking == "", true, "%s", blocking)
	}
	if os := p.fn("(*Session).OpenStream"); os != nil {
		ok := false
		for _, ret := range returnsOf(os) {
			if p.guardedByCall(ret, p.mCall("(*Session).IsClosed"), true) && isLoadOf(lastResult(ret), "Session.shutdownErr") {
				ok = true
			}
		}
		r.ob("R17.4", "OpenStream: a closed session yields its shutdown error at once", p.pos(os.Pos()), ok, true, "calls made in between fail rather than hang")
	}
	_ = types.Typ
	// R17.6 the watchers only sleep while the manager is in hotRestartState: that state must always be left (the checker
	// is armed on every path that enters it) or lost sessions are never rebuilt again (shared with C16 R16.1 / R16.2)
	borrow(p, r, "C16", runC16, map[string]string{"R16.1": "R17.6", "R16.2": "R17.6"}, func(o Ob) bool { return constructHas(o, "SessionManager", "handleSessionManagerHotRestart") })
}

// watcherEpochTest (R17.2 / R16.6): the watcher that rebuilds a lost session decides "this pool was
// already replaced by a hot restart" by comparing the epoch of the session it watched with the epoch
// of the session that is in the pool table now (two loads of Session.epochID), and reconnects only on
// the unchanged edge. Comparing with anything else (e.g. the manager's epoch) misclassifies pools that
// a partly failed hot restart did not swap: they are never rebuilt and stay on a dead session.
func watcherEpochTest(p *P, r *R, rule string) {
	n := 0
	for _, w := range p.fnList {
		isW := false
		allInstrs(w, func(in ssa.Instruction) {
			if s, ok := in.(*ssa.Select); ok && s.Blocking {
				for _, st := range s.States {
					if c, ok := st.Chan.(*ssa.Call); ok && p.calleeName(&c.Call) == "(*Session).CloseChan" {
						isW = true
					}
				}
			}
		})
		if !isW {
			continue
		}
		for _, rc := range findInstrs(w, p.mCall("newClientSession")) {
			n++
			ok := false
			for _, fct := range factsAt(rc.Block()) {
				if v, okb := fct.Cond.(*ssa.BinOp); okb && isLoadOf(v.X, "Session.epochID") && isLoadOf(v.Y, "Session.epochID") {
					if relOn(fct.Cond, fct.Truth, func(x ssa.Value) bool { return x == v.X }, func(x ssa.Value) bool { return x == v.Y }) == "==" {
						// one side is the session of the current table entry (sm.pools[id]), the other the watched pool's
						// exactly one side is read from the pool table inside the lock region of this attempt (the
						// current entry); the other is the pool the watcher has been watching since before the wait
						rg := p.mutexRegion("SessionManager.RWMutex")
						held, _ := p.heldBefore(w, rg, false)
						fromTable := func(x ssa.Value) bool {
							fa, okf := loadOfField(x)
							if !okf {
								return false
							}
							c, okc := fa.X.(*ssa.Call)
							if !okc || p.calleeName(&c.Call) != "(*streamPool).Session" {
								return false
							}
							ld, okl := c.Call.Args[0].(*ssa.UnOp)
							if !okl || !derivedFrom(ld, func(y ssa.Value) bool { return isLoadOf(y, "SessionManager.pools") }, 6) {
								return false
							}
							return held[ld] && p.reachesWithout(pointOf(ld), rc, rg.Release, nil)
						}
						if fromTable(v.X) != fromTable(v.Y) {
							ok = true
						}
					}
				}
			}
			r.ob(rule, p.fname(w)+": 'already replaced by hot restart' is decided by comparing the watched session's epoch with the epoch of the session now in the pool table", p.ipos(rc), ok, true,
				"a pool that a partly failed or timed-out hot restart did not swap must still be rebuilt when its old session dies")
		}
	}
	r.count(rule, "reconnect sites in watchers", n, 1)
}

// watcherFollowsTable (R17.5 / R16.8): a hot restart installs a new pool object in the table slot, so a watcher must
// look the slot up again before every wait: the pool whose session's CloseChan it waits on is read from
// SessionManager.pools inside the loop (re-executed after each wait), not captured once when the watcher started.
func watcherFollowsTable(p *P, r *R, rule string) {
	n := 0
	for _, w := range p.fnList {
		allInstrs(w, func(in ssa.Instruction) {
			sel, ok := in.(*ssa.Select)
			if !ok || !sel.Blocking {
				return
			}
			for _, st := range sel.States {
				c, ok := st.Chan.(*ssa.Call)
				if !ok || p.calleeName(&c.Call) != "(*Session).CloseChan" {
					continue
				}
				n++
				okv, detail := false, "the watched session is not obtained through (*streamPool).Session of a pool value"
				if sc, oks := c.Call.Args[0].(*ssa.Call); oks && p.calleeName(&sc.Call) == "(*streamPool).Session" {
					pv := sc.Call.Args[0]
					pin, isInstr := pv.(ssa.Instruction)
					switch {
					case !isInstr:
						detail = "the watched pool is captured once (parameter / free variable) and never looked up again"
					case !fromPoolTable(p, pv, 2):
						detail = "the watched pool is not read from SessionManager.pools"
					case !p.reaches(sel, pin, nil):
						detail = "the pool is read from the table only before the loop"
					default:
						okv, detail = true, ""
					}
				}
				r.ob(rule, p.fname(w)+": the watcher re-reads its pool from the table before every wait", p.ipos(sel), okv, true,
					"a hot restart replaces the pool object in the slot; a watcher that keeps the old object leaves the new session unwatched: %s", detail)
			}
		})
	}
	r.count(rule, "waits on a session's CloseChan in watchers", n, 1)
}

// fromPoolTable: v is read from SessionManager.pools, directly or as the result of a local getter whose every
// non-nil result is such a read.
func fromPoolTable(p *P, v ssa.Value, depth int) bool {
	isTbl := func(y ssa.Value) bool { return isLoadOf(y, "SessionManager.pools") }
	if e, ok := v.(*ssa.Extract); ok {
		if c, okc := e.Tuple.(*ssa.Call); okc && depth > 0 {
			if g := c.Call.StaticCallee(); g != nil && g.Pkg == p.Pkg && g.Blocks != nil {
				n := 0
				for _, ret := range returnsOf(g) {
					if g.Recover != nil && ret.Block() == g.Recover {
						continue
					}
					rv := resultOf(ret, e.Index)
					if isNilConst(rv) {
						continue
					}
					if !fromPoolTable(p, rv, depth-1) {
						return false
					}
					n++
				}
				return n > 0
			}
		}
		return false
	}
	if c, ok := v.(*ssa.Call); ok && depth > 0 {
		if g := c.Call.StaticCallee(); g != nil && g.Pkg == p.Pkg && g.Blocks != nil {
			n := 0
			for _, ret := range returnsOf(g) {
				if g.Recover != nil && ret.Block() == g.Recover {
					continue
				}
				rv := resultOf(ret, 0)
				if isNilConst(rv) {
					continue
				}
				if !fromPoolTable(p, rv, depth-1) {
					return false
				}
				n++
			}
			return n > 0
		}
		return false
	}
	return derivedFrom(v, isTbl, 6)
}
