package main

import (
	"go/token"
	"go/types"
	"strings"

	"golang.org/x/tools/go/ssa"
)

func init() {
	register(&property{
		ID: "C16",
		Explanation: "Decides that neither hot-restart state machine (Listener.state, SessionManager.state) can be left in hotRestartState without a time-out running: every store of hotRestartState is followed on every path by the spawn of the checker goroutine or by a store of another state (one listed exception, whose infeasibility side-conditions are re-verified on every run); " +
			"the checker goroutines leave the state on every exit (store of a non-hot-restart state, or a test that it already differs) and wait on a timer armed with the time-out constant; a stale or foreign epoch changes nothing (state changes of the ack handler are behind epoch equality; the manager's handler returns before any store when the epoch differs during a restart); acknowledgements are sent only on the all-pools-swapped edge, where the state is reset, and the time-out edge closes the reserve pools; the handlers are nil-safe (C13 R13.4); a pool that the hand-over did not swap is still rebuilt when its old session dies, because the watcher compares session epochs, not the manager's epoch; " +
			"a pool is recorded as handed over exactly when it is swapped for a pool whose session was created without error for the announced epoch (so a partial failure is not acknowledged as complete). " +
			"NOT decided: that the new server accepts every session, usability of old sessions meanwhile, ack counting under duplicates/losses, bounded time.",
		RuleText: "R16.1 must-pass-through from each store of hotRestartState; R16.2 per return of each checker (functions with a select on a timer whose loop stores a state); R16.3 dominance of state stores by epoch tests; R16.4 edge placement of ack sending and pool closing; R16.5 reference to C13 R13.4; R16.6 the watcher's replaced-by-hot-restart test (shared with C17 R17.2); R16.7 pairing (dominance / must-pass-through) of reservePools records with pools swaps, both behind the success edge of a session creator called with the epoch.",
		Run:      runC16,
	})
}

const hotRestartStateVal = 1

func isStateField(k string) bool { return k == "Listener.state" || k == "SessionManager.state" }

func runC16(p *P, r *R) {
	if v, ok := p.pkgConstInt("hotRestartState"); !ok || v != hotRestartStateVal {
		r.fail("R16.1", "constant hotRestartState", "", "expected value 1 (found %d, %v)", v, ok)
	}
	// checker role: functions named by effect: contain a blocking select with a timer arm and store a non-hot state to a state field (directly or via a callee)
	storesOther := func(word string) M {
		return M{ID: "storeOther:" + word, F: func(in ssa.Instruction) bool {
			st, ok := in.(*ssa.Store)
			if !ok || wordOf(st.Addr) != word {
				return false
			}
			c, okc := constInt(st.Val)
			return okc && c != hotRestartStateVal
		}}
	}
	var checkers []*ssa.Function
	checkerOf := map[string]*ssa.Function{}
	for _, f := range p.fnList {
		hasTimerSel := false
		allInstrs(f, func(in ssa.Instruction) {
			if s, ok := in.(*ssa.Select); ok && s.Blocking {
				for _, st := range s.States {
					if isTimerChan(st.Chan, 1) {
						hasTimerSel = true
					}
				}
			}
		})
		if !hasTimerSel {
			continue
		}
		for _, w := range []string{"Listener.state", "SessionManager.state"} {
			if p.may(f, storesOther(w), 2) && namedName(recvType(f)) == w[:len(w)-6] {
				checkers = append(checkers, f)
				checkerOf[w] = f
			}
		}
	}
	r.role("hot-restart checkers", p.names(checkers))
	r.count("R16.2", "hot-restart checker functions", len(checkers), 2)

	// ---- R16.1
	n1 := 0
	for _, f := range p.fnList {
		fn := p.fname(f)
		allInstrs(f, func(in ssa.Instruction) {
			st, ok := in.(*ssa.Store)
			if !ok || !isStateField(wordOf(st.Addr)) {
				return
			}
			c, okc := constInt(st.Val)
			if !okc || c != hotRestartStateVal {
				return
			}
			word := wordOf(st.Addr)
			n1++
			chk := checkerOf[word]
			spawn := func(i2 ssa.Instruction) bool {
				g, isGo := i2.(*ssa.Go)
				if !isGo || chk == nil {
					return false
				}
				if g.Call.StaticCallee() == chk {
					return true
				}
				for _, cl := range closureArgs(g) {
					if p.may(cl, p.mCall(p.fname(chk)), 1) {
						return true
					}
				}
				if mc, ok := g.Call.Value.(*ssa.MakeClosure); ok {
					if cf, ok := mc.Fn.(*ssa.Function); ok && p.may(cf, p.mCall(p.fname(chk)), 1) {
						return true
					}
				}
				return false
			}
			undo := storesOther(word)
			// the listed exception: an exit that returns ErrInHandshakeStage
			exception := func(ret *ssa.Return) bool {
				v := lastResult(ret)
				if u, ok := v.(*ssa.UnOp); ok {
					if g, ok := u.X.(*ssa.Global); ok && g.Name() == "ErrInHandshakeStage" {
						return true
					}
				}
				return false
			}
			usedException := false
			// a helper of this function (same receiver, called from nowhere else) whose every error exit has undone the
			// state (or is the listed exception): the caller's `if err != nil { return err }` after it needs no undo
			undoneOnError := func(g *ssa.Function) bool {
				okg, _ := p.findBadPath(g, []Point{{g.Blocks[0], -1}}, pathOpts{
					Discharge: func(i2 ssa.Instruction) bool { return undo.F(i2) },
					Bad: func(i2 ssa.Instruction) bool {
						ret, isRet := i2.(*ssa.Return)
						if !isRet || !isErrorExit(ret) {
							return false
						}
						if exception(ret) {
							usedException = true
							return false
						}
						return true
					},
				})
				return okg
			}
			fam := p.family(f)
			okp, res := p.findBadPath(f, []Point{pointOf(st)}, pathOpts{
				EdgeOK: func(b *ssa.BasicBlock, i int) bool {
					ifi := blockIf(b)
					if ifi == nil {
						return true
					}
					for _, g := range fam {
						if g == f {
							continue
						}
						isErrOfG := func(v ssa.Value) bool {
							if e, ok := v.(*ssa.Extract); ok {
								v = e.Tuple
							}
							c, ok := v.(*ssa.Call)
							return ok && c.Call.StaticCallee() == g
						}
						if relOn(ifi.Cond, i == 0, isErrOfG, isNilConst) == "!=" && undoneOnError(g) {
							return false
						}
					}
					return true
				},
				Discharge: func(i2 ssa.Instruction) bool { return spawn(i2) || undo.F(i2) },
				Bad: func(i2 ssa.Instruction) bool {
					ret, isRet := i2.(*ssa.Return)
					if !isRet || (f.Recover != nil && ret.Block() == f.Recover) {
						return false
					}
					if exception(ret) {
						usedException = true
						return false
					}
					return true
				},
			})
			r.ob("R16.1", fn+": entering hotRestartState arms the time-out checker or undoes itself on every path", p.ipos(in), okp, true,
				"a state left set with nobody watching is never left: %s", p.pathString(res))
			if usedException {
				sc1, sc2 := c16SideConditions(p)
				r.ob("R16.1", fn+": exception for the ErrInHandshakeStage exit — its infeasibility side-conditions hold", p.ipos(in), sc1 && sc2, true,
					"SC1 sessions.add only after a server-side newSession succeeded: %v; SC2 every success return of a handshake handler is dominated by handshakeDone=true: %v", sc1, sc2)
			}
		})
	}
	r.count("R16.1", "stores of hotRestartState", n1, 2)

	// ---- R16.2
	for word, chk := range checkerOf {
		fn := p.fname(chk)
		undo := storesOther(word)
		// every exit is reached either past a store of another state (directly or through a callee), or over a branch
		// edge on which the state is known to differ already. The search is branch-consistent (local booleans such as
		// `still := l.state == hotRestartState` are followed) and runs per loop iteration: it starts at the function
		// entry and after each select, and ends when the next select is reached.
		isState := func(v ssa.Value) bool { return isLoadOf(v, word) }
		isHot := func(v ssa.Value) bool { c, okc := constInt(v); return okc && c == hotRestartStateVal }
		starts := []Point{{chk.Blocks[0], -1}}
		allInstrs(chk, func(in ssa.Instruction) {
			if sel, ok := in.(*ssa.Select); ok && sel.Blocking {
				starts = append(starts, pointOf(in))
			}
		})
		for si, st := range starts {
			st := st
			okp, res := p.findBadPath(chk, []Point{st}, pathOpts{
				Discharge: func(in ssa.Instruction) bool {
					if sel, ok := in.(*ssa.Select); ok && sel.Blocking {
						return true // next iteration: judged from its own start
					}
					return p.evMust(in, undo, 2)
				},
				Bad: func(in ssa.Instruction) bool {
					ret, isRet := in.(*ssa.Return)
					return isRet && !(chk.Recover != nil && ret.Block() == chk.Recover)
				},
				EdgeOK: func(b *ssa.BasicBlock, i int) bool {
					ifi := blockIf(b)
					if ifi == nil {
						return true
					}
					return relOn(ifi.Cond, i == 0, isState, isHot) != "!=" // the state differs already: nothing to leave
				},
			})
			where := "from the entry"
			if st.Idx >= 0 {
				where = "after wait #" + itoa(int64(si))
			}
			r.ob("R16.2", fn+": the checker leaves hotRestartState on every exit ("+where+")", p.pos(chk.Pos()), okp, true, "%s", p.pathString(res))
		}
		armed := false
		allInstrs(chk, func(in ssa.Instruction) {
			if c, ok := in.(*ssa.Call); ok && p.calleeName(&c.Call) == "time.NewTimer" {
				if k, okk := constInt(c.Call.Args[0]); okk && k > 0 {
					armed = true
				}
			}
		})
		r.ob("R16.2", fn+": the checker's time-out timer is armed with a positive constant", p.pos(chk.Pos()), armed, true, "")
		// the timer arm is an exit
		okExit := false
		allInstrs(chk, func(in ssa.Instruction) {
			sel, ok := in.(*ssa.Select)
			if !ok {
				return
			}
			for _, b := range chk.Blocks {
				for i := range b.Succs {
					if s2, k, eq := selectEdge(b, i); s2 == sel && eq && isTimerField(sel.States[k].Chan, "Timer.C") {
						res := p.mustPass(chk, []Point{{b.Succs[i], -1}}, func(i2 ssa.Instruction) bool { return p.evMust(i2, undo, 2) }, nil, nil)
						if res.OK && !p.reachesWithout(Point{b.Succs[i], -1}, sel, nil, nil) {
							okExit = true
						}
					}
				}
			}
		})
		r.ob("R16.2", fn+": the time-out arm resets the state and ends the checker", p.pos(chk.Pos()), okExit, true, "")
	}

	// ---- R16.3 epoch guards
	if ack := p.fn("handleHotRestartAck"); ack != nil {
		n := 0
		allInstrs(ack, func(in ssa.Instruction) {
			st, ok := in.(*ssa.Store)
			if !ok {
				return
			}
			w := wordOf(st.Addr)
			if w != "Listener.hotRestartAckCount" && w != "Session.state" {
				return
			}
			n++
			isEpochParam := func(v ssa.Value) bool {
				c, okc := stripConv(v).(*ssa.Call)
				return okc && p.calleeName(&c.Call) == "(encoding/binary.bigEndian).Uint64"
			}
			isLsnEpoch := func(v ssa.Value) bool { return isLoadOf(v, "Listener.epoch") }
			ok2 := false
			for _, fct := range factsAt(in.Block()) {
				if relOn(fct.Cond, fct.Truth, isEpochParam, isLsnEpoch) == "==" {
					ok2 = true
				}
			}
			r.ob("R16.3", "handleHotRestartAck: "+w+" changes only for an acknowledgement of the listener's current epoch", p.ipos(in), ok2, true, "a stale or foreign epoch changes nothing")
		})
		r.count("R16.3", "state changes in the ack handler", n, 2)
	} else {
		r.fail("R16.3", "anchor handleHotRestartAck", "", "not found")
	}
	if mh := p.fn("handleSessionManagerHotRestart"); mh != nil {
		// the guard: state == hotRestart && epoch != param -> return, dominating every store to SessionManager fields
		var guard, outer *ssa.If
		for _, b := range mh.Blocks {
			ifi := blockIf(b)
			if ifi == nil {
				continue
			}
			isMgrEpoch := func(v ssa.Value) bool { return isLoadOf(v, "SessionManager.epoch") }
			isParamEpoch := func(v ssa.Value) bool { return isLoadOf(v, "sessionManagerHotRestartParams.epoch") }
			for i := range b.Succs {
				if relOn(ifi.Cond, i == 0, isMgrEpoch, isParamEpoch) == "!=" {
					// this edge must return without stores, and be under state == hotRestart
					isState := func(v ssa.Value) bool { return isLoadOf(v, "SessionManager.state") }
					isHot := func(v ssa.Value) bool { c, okc := constInt(v); return okc && c == hotRestartStateVal }
					under := false
					for _, fct := range factsAt(b) {
						if relOn(fct.Cond, fct.Truth, isState, isHot) == "==" {
							under = true
							outer = fct.If
						}
					}
					retOnly := true
					seen := map[*ssa.BasicBlock]bool{}
					var walk func(bb *ssa.BasicBlock)
					walk = func(bb *ssa.BasicBlock) {
						if seen[bb] {
							return
						}
						seen[bb] = true
						for _, in := range bb.Instrs {
							if st, ok := in.(*ssa.Store); ok {
								if w := wordOf(st.Addr); len(w) > 15 && w[:15] == "SessionManager." {
									retOnly = false
								}
							}
						}
						for _, s := range bb.Succs {
							walk(s)
						}
					}
					walk(b.Succs[i])
					if under && retOnly {
						guard = ifi
					}
				}
			}
		}
		r.ob("R16.3", "handleSessionManagerHotRestart: during a restart an event with another epoch returns without changing anything", p.pos(mh.Pos()), guard != nil, true, "")
		if guard != nil {
			okDom := true
			allInstrs(mh, func(in ssa.Instruction) {
				if st, ok := in.(*ssa.Store); ok {
					if w := wordOf(st.Addr); len(w) > 15 && w[:15] == "SessionManager." {
						if outer == nil || !instrDominates(outer, in) {
							okDom = false
						}
					}
				}
			})
			r.ob("R16.3", "handleSessionManagerHotRestart: the epoch test precedes every change of the manager", p.pos(mh.Pos()), okDom, true, "")
		}
		// the state is entered with the announced epoch
		okEpoch := false
		cands := []*ssa.Function{mh}
		allInstrs(mh, func(in ssa.Instruction) {
			if g := p.localCallee(in); g != nil && !inFns(g, cands) {
				cands = append(cands, g)
			}
		})
		for _, g := range cands {
			for _, si := range findInstrs(g, mStoreWord("SessionManager.epoch")) {
				// in a helper the epoch arrives as a parameter: judged at the helper's call sites
				for _, v := range p.argsFor(si.(*ssa.Store).Val, g) {
					if isLoadOf(v, "sessionManagerHotRestartParams.epoch") {
						okEpoch = true
					}
				}
			}
		}
		r.ob("R16.3", "handleSessionManagerHotRestart: the restart adopts the announced epoch", p.pos(mh.Pos()), okEpoch, true, "")
	} else {
		r.fail("R16.3", "anchor handleSessionManagerHotRestart", "", "not found")
	}

	// ---- R16.4 ack only when all pools swapped; time-out closes the reserve pools
	if chk := checkerOf["SessionManager.state"]; chk != nil {
		isLenRes := func(v ssa.Value) bool {
			c, ok := v.(*ssa.Call)
			if !ok {
				return false
			}
			b, ok := c.Call.Value.(*ssa.Builtin)
			return ok && b.Name() == "len" && isLoadOf(c.Call.Args[0], "SessionManager.reservePools")
		}
		isLenPools := func(v ssa.Value) bool {
			c, ok := v.(*ssa.Call)
			if !ok {
				return false
			}
			b, ok := c.Call.Value.(*ssa.Builtin)
			return ok && b.Name() == "len" && isLoadOf(c.Call.Args[0], "SessionManager.pools")
		}
		n := 0
		for _, ci := range findInstrs(chk, p.mCall("(*Session).hotRestart")) {
			n++
			ok := false
			for b := ci.Block(); b != nil; b = b.Idom() {
				for _, fct := range factsAt(b) {
					if relOn(fct.Cond, fct.Truth, isLenRes, isLenPools) == "==" {
						ok = true
					}
				}
			}
			okType := false
			ackT, _ := p.pkgConstInt("typeHotRestartAck")
			if k, okk := constInt(ci.(*ssa.Call).Call.Args[2]); okk && k == ackT {
				okType = true
			}
			r.ob("R16.4", "SessionManager.checkHotRestart: acknowledgements are sent only when every pool has been swapped", p.ipos(ci), ok && okType, true, "")
		}
		r.count("R16.4", "ack send sites", n, 1)
		// time-out arm closes the reserve pools
		okClose := false
		allInstrs(chk, func(in ssa.Instruction) {
			sel, ok := in.(*ssa.Select)
			if !ok {
				return
			}
			for _, b := range chk.Blocks {
				for i := range b.Succs {
					if s2, k, eq := selectEdge(b, i); s2 == sel && eq && isTimerField(sel.States[k].Chan, "Timer.C") {
						reach := p.reachLocalBlocks(b.Succs[i])
						for bb := range reach {
							for _, i2 := range bb.Instrs {
								if c, okc := i2.(*ssa.Call); okc && p.calleeName(&c.Call) == "(*streamPool).close" {
									okClose = true
								}
							}
						}
					}
				}
			}
		})
		r.ob("R16.4", "SessionManager.checkHotRestart: the time-out arm closes the reserve pools", p.pos(chk.Pos()), okClose, true, "")
	}
	if chk := checkerOf["Listener.state"]; chk != nil {
		isAck := func(v ssa.Value) bool { return isLoadOf(v, "Listener.hotRestartAckCount") }
		isZero := func(v ssa.Value) bool { c, okc := constInt(v); return okc && c == 0 }
		ok := false
		for _, si := range findInstrs(chk, mStoreWord("Listener.state")) {
			if c, okc := constInt(si.(*ssa.Store).Val); okc && c == 2 { // hotRestartDoneState
				for _, fct := range factsAt(si.Block()) {
					if relOn(fct.Cond, fct.Truth, isAck, isZero) == "==" {
						ok = true
					}
				}
			}
		}
		r.ob("R16.4", "Listener.checkHotRestart: the restart is declared done only when every acknowledgement arrived", p.pos(chk.Pos()), ok, true, "")
	}
	c16SessionNames(p, r)
	c16FreshBookkeeping(p, r)
	// R16.12 a restart event or acknowledgement that arrives in two segments is neither dropped nor half-consumed
	// (shared with C13 R13.5)
	borrow(p, r, "C13", runC13, map[string]string{"R13.5": "R16.12"}, func(o Ob) bool { return constructHas(o, "handleHotRestart") })
	// R16.10 a session dying while the restart events are sent must not wedge the listener: no mutex is re-acquired
	// through the shutdown callback while the restart loop holds it, no unbounded wait under a mutex (shared with C11)
	borrow(p, r, "C11", runC11, map[string]string{"R11.11": "R16.10", "R11.12": "R16.10", "R11.13": "R16.10"}, nil)
	c16SwapDiscipline(p, r)
	// R16.5 the hot-restart handlers are nil-safe on sessions without manager / listener (shared with C13 R13.4)
	borrow(p, r, "C13", runC13, map[string]string{"R13.4": "R16.5"}, func(o Ob) bool { return constructHas(o, "Session.manager", "Session.listener") })
	// R16.6 pools that the hot restart did not swap keep being healed (shared with C17 R17.2)
	watcherEpochTest(p, r, "R16.6")
	// R16.8 after the hand-over the watchers follow the new pools (shared with C17 R17.5)
	watcherFollowsTable(p, r, "R16.8")
	_ = types.Typ
}

func recvType(f *ssa.Function) types.Type {
	if f.Signature.Recv() != nil {
		return f.Signature.Recv().Type()
	}
	return types.Typ[types.Invalid]
}

func isTimerField(v ssa.Value, key string) bool {
	fa, ok := loadOfField(v)
	return ok && fieldKey(fa) == key
}

func (p *P) reachLocalBlocks(start *ssa.BasicBlock) map[*ssa.BasicBlock]bool {
	seen := map[*ssa.BasicBlock]bool{}
	var walk func(b *ssa.BasicBlock)
	walk = func(b *ssa.BasicBlock) {
		if seen[b] {
			return
		}
		seen[b] = true
		for _, s := range b.Succs {
			walk(s)
		}
	}
	walk(start)
	return seen
}

// c16SideConditions: SC1 sessions.add is only called on the success edge of a server-side
// newSession; SC2 every nil-error return of a handshake handler is dominated by handshakeDone = true.
func c16SideConditions(p *P) (bool, bool) {
	sc1, n1 := true, 0
	for _, f := range p.fnList {
		for _, ci := range findInstrs(f, p.mCall("(*sessions).add")) {
			n1++
			ok := false
			arg := ci.(*ssa.Call).Call.Args[1]
			if e, isE := arg.(*ssa.Extract); isE {
				if c, isC := e.Tuple.(*ssa.Call); isC && p.calleeName(&c.Call) == "newSession" {
					var errv ssa.Value
					for _, ref := range *c.Referrers() {
						if e2, ok2 := ref.(*ssa.Extract); ok2 && e2.Index == 1 {
							errv = e2
						}
					}
					isErr := func(v ssa.Value) bool { return v == errv }
					for _, fct := range factsAt(ci.Block()) {
						if relOn(fct.Cond, fct.Truth, isErr, isNilConst) == "==" {
							ok = true
						}
					}
				}
			}
			if !ok {
				sc1 = false
			}
		}
	}
	sc2, n2 := true, 0
	for _, f := range p.fnList {
		sig := f.Signature
		if f.Parent() != nil || sig.Recv() != nil || sig.Params().Len() != 2 || sig.Results().Len() != 1 ||
			namedName(sig.Params().At(0).Type()) != "Session" || namedName(sig.Params().At(1).Type()) != "header" {
			continue
		}
		if len(findInstrs(f, p.mCall("mappingQueueManager", "mappingQueueManagerMemfd"))) == 0 {
			continue // not a mapping handshake handler (e.g. version exchange)
		}
		n2++
		for _, ret := range returnsOf(f) {
			if !isNilConst(lastResult(ret)) {
				continue
			}
			ok := false
			for _, si := range findInstrs(f, mStoreWord("Session.handshakeDone")) {
				if c, okc := si.(*ssa.Store).Val.(*ssa.Const); okc && c.Value != nil && c.Value.String() == "true" && instrDominates(si, ret) {
					ok = true
				}
			}
			if !ok {
				sc2 = false
			}
		}
	}
	return sc1 && n1 > 0, sc2 && n2 > 0
}

// c16SwapDiscipline (R16.7): the session manager declares the hand-over complete when it has recorded as many pools in
// reservePools as it has pools, so "recorded" must mean "swapped": recording the old pool and installing the new pool
// come together on every path, the new pool is installed only after its session was created successfully, and that
// session is created for the manager's (announced) epoch. Otherwise a partial failure is acknowledged as a completed
// hand-over and the pool that never moved dies with the old server.
func c16SwapDiscipline(p *P, r *R) {
	isPoolsSlot := func(addr ssa.Value) bool {
		ia, ok := addr.(*ssa.IndexAddr)
		return ok && isLoadOf(ia.X, "SessionManager.pools")
	}
	isRecord := func(in ssa.Instruction) bool {
		mu, ok := in.(*ssa.MapUpdate)
		return ok && isLoadOf(mu.Map, "SessionManager.reservePools")
	}
	isSwap := func(in ssa.Instruction) bool {
		st, ok := in.(*ssa.Store)
		return ok && isPoolsSlot(st.Addr)
	}
	nRec := 0
	for _, f := range p.fnList {
		var recs, swaps []ssa.Instruction
		allInstrs(f, func(in ssa.Instruction) {
			if isRecord(in) {
				recs = append(recs, in)
			}
			if isSwap(in) {
				swaps = append(swaps, in)
			}
		})
		if len(recs) == 0 {
			continue
		}
		fn := p.fname(f)
		r.Scope[fn] = true
		pair := func(xs []ssa.Instruction, other func(ssa.Instruction) bool, others []ssa.Instruction, what string) {
			for _, x := range xs {
				ok := false
				for _, y := range others {
					if instrDominates(y, x) {
						ok = true
					}
				}
				detail := ""
				if !ok {
					res := p.mustPass(f, []Point{pointOf(x)}, other, nil, nil)
					ok = res.OK
					detail = p.pathString(res)
				}
				r.ob("R16.7", fn+": "+what, p.ipos(x), ok, true, "%s", detail)
			}
		}
		pair(recs, isSwap, swaps, "a pool recorded as handed over is swapped for the new pool on every path")
		pair(swaps, isRecord, recs, "a swapped-out pool is recorded as handed over on every path")
		for _, x := range recs {
			nRec++
			mu := x.(*ssa.MapUpdate)
			// the recorded value is the pool that is being replaced
			okVal := false
			if u, ok := mu.Value.(*ssa.UnOp); ok && u.Op == token.MUL && isPoolsSlot(u.X) {
				okVal = true
			}
			r.ob("R16.7", fn+": the pool recorded as handed over is the one currently installed", p.ipos(x), okVal, true, "")
		}
		// the swap happens only after a session of the manager's epoch was created successfully
		for _, x := range swaps {
			okCreated, okEpoch := false, false
			allInstrs(f, func(in ssa.Instruction) {
				c, ok := in.(*ssa.Call)
				if !ok {
					return
				}
				g := c.Call.StaticCallee()
				if g == nil || g.Signature.Results().Len() != 2 || namedName(g.Signature.Results().At(0).Type()) != "Session" {
					return
				}
				var errV ssa.Value
				for _, ref := range *c.Referrers() {
					if ex, ok := ref.(*ssa.Extract); ok && ex.Index == 1 {
						errV = ex
					}
				}
				if errV == nil || !instrDominates(c, x) {
					return
				}
				isErr := func(v ssa.Value) bool { return v == errV }
				for _, fct := range factsAt(x.Block()) {
					if relOn(fct.Cond, fct.Truth, isErr, isNilConst) == "==" {
						okCreated = true
					}
				}
				for _, a := range c.Call.Args {
					if isLoadOf(a, "SessionManager.epoch") || isLoadOf(a, "sessionManagerHotRestartParams.epoch") {
						okEpoch = true
					}
				}
			})
			r.ob("R16.7", fn+": the new pool is installed only after its session was created without error", p.ipos(x), okCreated, true, "")
			r.ob("R16.7", fn+": the new session is created for the manager's (announced) epoch", p.ipos(x), okEpoch, true, "")
		}
	}
	r.count("R16.7", "sites recording a pool as handed over", nRec, 1)
}

// c16SessionNames (R16.9): the successor session of a hot restart is created while the old session is still alive,
// under the same process id and session id, so its shared-memory names must differ: the epoch / random suffix is
// appended to the path prefix, and the queue path is derived from the prefix. That only works if the queue path is
// derived from the *final* prefix: after the load of the prefix that feeds Config.QueuePath no further store to
// Config.ShareMemoryPathPrefix may follow. (With file mappings a queue name equal to the live session's makes every
// successor fail with "queue was existed" and unlinks the live queue on the error path.)
func c16SessionNames(p *P, r *R) {
	n := 0
	for _, f := range p.fnList {
		for _, si := range findInstrs(f, mStoreWord("Config.QueuePath")) {
			st := si.(*ssa.Store)
			var prefixLoads []ssa.Instruction
			var walk func(v ssa.Value, d int)
			walk = func(v ssa.Value, d int) {
				if d < 0 || v == nil {
					return
				}
				if isLoadOf(v, "Config.ShareMemoryPathPrefix") {
					prefixLoads = append(prefixLoads, v.(ssa.Instruction))
					return
				}
				if b, ok := v.(*ssa.BinOp); ok {
					walk(b.X, d-1)
					walk(b.Y, d-1)
				}
			}
			walk(st.Val, 6)
			if len(prefixLoads) == 0 {
				continue
			}
			n++
			ok := true
			for _, ld := range prefixLoads {
				for _, ps := range findInstrs(f, mStoreWord("Config.ShareMemoryPathPrefix")) {
					if p.reaches(ld, ps, nil) {
						ok = false
					}
				}
			}
			r.ob("R16.9", p.fname(f)+": the queue path is derived from the final (epoch-qualified) path prefix", p.ipos(si), ok, true,
				"a prefix that is still extended afterwards (epoch / random suffix) leaves the successor's queue name equal to the live session's")
			// and the prefix does get qualified by the epoch the session is created for
			qualified := false
			for _, ps := range findInstrs(f, mStoreWord("Config.ShareMemoryPathPrefix")) {
				var has func(v ssa.Value, d int) bool
				has = func(v ssa.Value, d int) bool {
					if d < 0 || v == nil {
						return false
					}
					switch x := v.(type) {
					case *ssa.BinOp:
						return has(x.X, d-1) || has(x.Y, d-1)
					case *ssa.Call:
						if p.calleeName(&x.Call) == "strconv.FormatUint" {
							if prm, okp := stripConv(x.Call.Args[0]).(*ssa.Parameter); okp && strings.Contains(strings.ToLower(prm.Name()), "epoch") {
								return true
							}
						}
					}
					return false
				}
				if has(ps.(*ssa.Store).Val, 8) {
					qualified = true
				}
			}
			r.ob("R16.9", p.fname(f)+": the path prefix of a successor session carries the epoch it is created for", p.ipos(si), qualified, true, "")
		}
	}
	r.count("R16.9", "queue paths derived from the share-memory prefix", n, 1)
}

// c16FreshBookkeeping (R16.11): reservePools is the record of the restart in progress ("this session was handed over
// already"). The first event of a new restart clears what the previous restart left there; the record must not be
// consulted before that: in the manager's restart handler no read of reservePools can be followed by the store that
// resets it. Otherwise, after one successful restart, every event of the next one is taken for a repeat and dropped.
func c16FreshBookkeeping(p *P, r *R) {
	mh := p.fn("handleSessionManagerHotRestart")
	if mh == nil {
		r.fail("R16.11", "anchor handleSessionManagerHotRestart", "", "not found")
		return
	}
	var resets, reads []ssa.Instruction
	resetM := M{ID: "reset reservePools", F: func(in ssa.Instruction) bool {
		st, ok := in.(*ssa.Store)
		return ok && wordOf(st.Addr) == "SessionManager.reservePools" && isNilConst(st.Val)
	}}
	allInstrs(mh, func(in ssa.Instruction) {
		switch x := in.(type) {
		case *ssa.Call:
			// the first-event block split off into a helper that resets the record
			if g := p.localCallee(x); g != nil && p.may(g, resetM, 2) {
				resets = append(resets, in)
			}
		case *ssa.Store:
			if resetM.F(in) {
				resets = append(resets, in)
			}
		case *ssa.Lookup:
			if isLoadOf(x.X, "SessionManager.reservePools") {
				reads = append(reads, in)
			}
		}
	})
	r.count("R16.11", "resets of reservePools in the restart handler", len(resets), 1)
	r.count("R16.11", "lookups in reservePools in the restart handler", len(reads), 1)
	ok := true
	for _, rd := range reads {
		for _, rs := range resets {
			if p.reaches(rd, rs, nil) {
				ok = false
			}
		}
	}
	r.ob("R16.11", "handleSessionManagerHotRestart: the hand-over record is cleared for a new restart before it is consulted", p.pos(mh.Pos()), ok, true,
		"a repeat test made against the previous restart's record drops every event of the next restart")
}
