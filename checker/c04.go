package main

import (
	"go/token"
	"go/types"

	"golang.org/x/tools/go/ssa"
)

func init() {
	register(&property{
		ID: "C04",
		Explanation: "Decides the publication discipline of the IO queue on every path: the producer writes all element words before it bumps tail and never after; the slot index is (tail %% cap)*elemLen of the very tail value the full-check used; " +
			"the consumer reads the element after the emptiness check and before it bumps head, at (head % cap)*elemLen; producers run wholly inside the queue mutex, which is released on every exit; " +
			"ErrQueueFull is returned only on the full edge computed from atomically loaded cursors; head/tail/workingFlag have one writer role each and the consumer is only called from wire handlers (single consumer). " +
			"NOT decided: exactly-once / order under all interleavings, wrap-around arithmetic for every capacity (cap=0), cross-process memory ordering.",
		RuleText: "R04.1 per slot store in functions with atomic Add on *queue.tail; R04.2 per slot load in functions with atomic Add on *queue.head; R04.3 must-held dataflow of queue.Mutex over the producer; R04.4 edge placement of the full check; R04.5 census of writers of *queue.{head,tail,workingFlag} and of callers of the consumer.",
		Run:      runC04,
	})
}

func (p *P) queueRoles() (prod, cons []*ssa.Function) {
	return p.functionsWhere(p.mAtomic("Add", "*queue.tail")), p.functionsWhere(p.mAtomic("Add", "*queue.head"))
}

// wireHandlers: package functions with the protocolHandler signature (s *Session, h header, buf []byte) (int, bool, error).
func (p *P) wireHandlers() []*ssa.Function {
	var out []*ssa.Function
	for _, f := range p.fnList {
		sig := f.Signature
		if f.Parent() != nil || sig.Recv() != nil || sig.Params().Len() != 3 || sig.Results().Len() != 3 {
			continue
		}
		if namedName(sig.Params().At(0).Type()) != "Session" || namedName(sig.Params().At(1).Type()) != "header" || !isByteSlice(sig.Params().At(2).Type()) {
			continue
		}
		if b, ok := sig.Results().At(1).Type().(*types.Basic); !ok || b.Kind() != types.Bool {
			continue
		}
		out = append(out, f)
	}
	return out
}

func slotAccesses(f *ssa.Function, kind string) []rawAcc {
	var out []rawAcc
	for _, a := range rawAccesses(f) {
		if a.Kind == kind && isLoadOf(a.Base, "queue.queueBytesOnMemory") {
			out = append(out, a)
		}
	}
	return out
}

// slotIndexFrom: idx symbolic part is (cursor % load(q.cap)) * elemLen; returns cursor.
func slotIndexFrom(sym ssa.Value, elemLen int64) (ssa.Value, bool) {
	mul, ok := stripConv(sym).(*ssa.BinOp)
	if !ok || mul.Op != token.MUL {
		return nil, false
	}
	c, okc := constInt(mul.Y)
	rem, okr := stripConv(mul.X).(*ssa.BinOp)
	if !okc || c != elemLen || !okr || rem.Op != token.REM || !isLoadOf(rem.Y, "queue.cap") {
		return nil, false
	}
	if narrows(rem.X) {
		return nil, false // a cursor narrowed before the remainder jumps when it crosses the narrower type's range
	}
	return stripConv(rem.X), true
}

func runC04(p *P, r *R) {
	prod, cons := p.queueRoles()
	r.role("queue producer", p.names(prod))
	r.role("queue consumer", p.names(cons))
	r.count("R04.1", "producer functions (atomic Add on *queue.tail)", len(prod), 1)
	r.count("R04.2", "consumer functions (atomic Add on *queue.head)", len(cons), 1)
	QE, _ := p.pkgConstInt("queueElementLen")

	for _, f := range prod {
		fn := p.fname(f)
		pubs := findInstrs(f, p.mAtomic("Add", "*queue.tail"))
		stores := slotAccesses(f, "store")
		r.count("R04.1", "slot stores in "+fn, len(stores), 3)
		var cursor ssa.Value
		for _, pub := range pubs {
			if c, ok := constInt(pub.(*ssa.Call).Call.Args[1]); !ok || c != 1 {
				r.fail("R04.1", fn+": tail advanced by something other than +1", p.ipos(pub), "")
			}
			for _, s := range stores {
				r.ob("R04.1", fn+": element word +"+itoa(s.K)+" is written before tail is published", p.ipos(s.In), instrDominates(s.In, pub) && !p.reaches(pub, s.In, nil), true,
					"the consumer takes no lock: a tail bumped before the slot is complete lets it read a half-written (old) element")
			}
		}
		for _, s := range stores {
			cur, ok := slotIndexFrom(s.Sym, QE)
			okc := ok
			if ok {
				if cursor == nil {
					cursor = cur
				} else if cursor != cur {
					okc = false
				}
				if a := p.atomicOpOfValue(cur); a == nil || a.Op != "Load" || a.Word != "*queue.tail" {
					okc = false
				}
			}
			r.ob("R04.1", fn+": slot index of word +"+itoa(s.K)+" is (loaded tail % cap)*queueElementLen", p.ipos(s.In), okc, true, "")
		}
		// R04.3 region
		rg := p.mutexRegion("queue.Mutex")
		held, _ := p.heldBefore(f, rg, false)
		deferRel := p.deferredRelease(f, rg)
		inRegion := func(in ssa.Instruction) bool { return held[in] }
		for _, pub := range pubs {
			r.ob("R04.3", fn+": tail is published inside the queue mutex", p.ipos(pub), inRegion(pub), true, "two producers outside the lock can claim the same index")
		}
		for _, s := range stores {
			r.ob("R04.3", fn+": element word +"+itoa(s.K)+" is written inside the queue mutex", p.ipos(s.In), inRegion(s.In), true, "")
		}
		for _, li := range findInstrs(f, p.mAtomic("Load", "*queue.tail")) {
			r.ob("R04.3", fn+": tail is loaded inside the queue mutex", p.ipos(li), inRegion(li), true, "")
		}
		for _, ret := range returnsOf(f) {
			r.ob("R04.3", fn+": queue mutex is released on every exit", p.ipos(ret), !p.mayHeldBefore(f, rg)[ret] || deferRel, true, "an exit that keeps the lock deadlocks every later producer")
		}
		// no double acquire
		mh := p.mayHeldBefore(f, rg)
		for _, li := range findInstrs(f, M{ID: "lock", F: rg.Acquire}) {
			if _, isDefer := li.(*ssa.Defer); !isDefer && mh[li] {
				r.fail("R04.3", fn+": queue mutex acquired while possibly held", p.ipos(li), "self-deadlock")
			}
		}
		// R04.4 full check
		nFull := 0
		for _, ret := range returnsOf(f) {
			if len(ret.Results) != 1 {
				continue
			}
			for _, rc := range returnCases(ret, 0) {
				isFull := false
				if u, ok := rc.V.(*ssa.UnOp); ok && u.Op == token.MUL {
					if g, ok := u.X.(*ssa.Global); ok && g.Name() == "ErrQueueFull" {
						isFull = true
					}
				}
				if !isFull {
					continue
				}
				nFull++
				okEdge := false
				for _, fct := range factsAt(rc.At) {
					if rel := c04FullRel(p, fct, cursor); rel == ">=" || rel == "==" {
						okEdge = true
					}
				}
				r.ob("R04.4", fn+": ErrQueueFull only on the edge tail-head >= cap of atomically loaded cursors", p.ipos(ret), okEdge, true, "")
			}
		}
		r.count("R04.4", "ErrQueueFull returns in "+fn, nFull, 1)
		for _, s := range stores {
			okEdge := false
			for _, fct := range factsAt(s.In.Block()) {
				if rel := c04FullRel(p, fct, cursor); rel == "<" {
					okEdge = true
				}
			}
			r.ob("R04.4", fn+": element word +"+itoa(s.K)+" is written only on the not-full edge", p.ipos(s.In), okEdge, true, "bounded occupancy: a slot still owned by the consumer must not be overwritten")
		}
	}

	for _, f := range cons {
		fn := p.fname(f)
		rels := findInstrs(f, p.mAtomic("Add", "*queue.head"))
		loads := slotAccesses(f, "load")
		r.count("R04.2", "slot loads in "+fn, len(loads), 3)
		var cursor ssa.Value
		for _, l := range loads {
			cur, ok := slotIndexFrom(l.Sym, QE)
			okc := ok
			if ok {
				if cursor == nil {
					cursor = cur
				} else if cursor != cur {
					okc = false
				}
				if a := p.atomicOpOfValue(cur); a == nil || a.Op != "Load" || a.Word != "*queue.head" {
					okc = false
				}
			}
			r.ob("R04.2", fn+": slot index of word +"+itoa(l.K)+" is (loaded head % cap)*queueElementLen", p.ipos(l.In), okc, true, "")
			for _, rel := range rels {
				r.ob("R04.2", fn+": element word +"+itoa(l.K)+" is read before head releases the slot", p.ipos(l.In), instrDominates(l.In, rel) && !p.reaches(rel, l.In, nil), true,
					"releasing first lets a producer overwrite the slot being read (torn element)")
			}
			// emptiness check: dominated by (head >= tail) false or (head < tail) true
			okEmpty := false
			for _, fct := range factsAt(l.In.Block()) {
				isHead := func(v ssa.Value) bool {
					a := p.atomicOpOfValue(v)
					return a != nil && a.Op == "Load" && a.Word == "*queue.head" && stripConv(v) == cursor
				}
				isTail := func(v ssa.Value) bool {
					a := p.atomicOpOfValue(v)
					return a != nil && a.Op == "Load" && a.Word == "*queue.tail"
				}
				if relOn(fct.Cond, fct.Truth, isHead, isTail) == "<" {
					okEmpty = true
				}
			}
			r.ob("R04.2", fn+": element word +"+itoa(l.K)+" is read only after the emptiness check head<tail", p.ipos(l.In), okEmpty, true, "")
		}
		for _, rel := range rels {
			if c, ok := constInt(rel.(*ssa.Call).Call.Args[1]); !ok || c != 1 {
				r.fail("R04.2", fn+": head advanced by something other than +1", p.ipos(rel), "")
			}
		}
	}

	// R04.6 element and header layout: producer and consumer (possibly in different processes) agree on where the
	// cursors, the flag and each element field live, and on which half of the mapping is whose queue (shared with C03)
	borrow(p, r, "C03", runC03, map[string]string{"R03.1": "R04.6", "R03.3": "R04.6"}, func(o Ob) bool {
		return constructHas(o, "queue")
	})

	// R04.5 census
	words := map[string]bool{"*queue.head": true, "*queue.tail": true, "*queue.workingFlag": true}
	n := 0
	for _, f := range p.fnList {
		fn := p.fname(f)
		allInstrs(f, func(in ssa.Instruction) {
			if s, ok := in.(*ssa.Store); ok && words[wordOf(s.Addr)] {
				n++
				// plain initialising stores: only in functions that also write the capacity word (queue creator)
				isCreator := false
				for _, a := range rawAccesses(f) {
					if a.Kind == "store" && a.K == 0 && a.Width == 4 {
						isCreator = true
					}
				}
				r.ob("R04.5", fn+": plain store to "+wordOf(s.Addr), p.ipos(in), isCreator, true, "plain stores to queue cursors/flag only in the queue creator")
				return
			}
			a := p.atomicOp(in)
			if a == nil || !words[a.Word] || a.Op == "Load" {
				return
			}
			n++
			allowed := false
			switch {
			case a.Op == "Add" && a.Word == "*queue.tail":
				allowed = true // producer role (rules R04.1/3/4 apply)
			case a.Op == "Add" && a.Word == "*queue.head":
				allowed = true // consumer role (rule R04.2 applies)
			case a.Word == "*queue.workingFlag" && (a.Op == "CAS" || a.Op == "Store"):
				allowed = true // wake-up handshake, checked by C05 R05.5
			}
			r.ob("R04.5", fn+": atomic "+a.Op+" on "+a.Word, p.ipos(in), allowed, true, "cursors: Add only (producer: tail, consumer: head)")
		})
	}
	r.count("R04.5", "cursor/flag write sites", n, 6)
	wh := p.wireHandlers()
	r.role("wire handlers", p.names(wh))
	for _, c := range cons {
		ncall := 0
		for _, f := range p.fnList {
			for range findInstrs(f, p.mCall(p.fname(c))) {
				ncall++
				r.ob("R04.5", p.fname(f)+": calls the consumer "+p.fname(c), p.pos(f.Pos()), inFns(f, wh), true,
					"single-consumer assumption: the consumer may only run on the event loop (wire handlers)")
			}
		}
		r.count("R04.5", "call sites of the consumer "+p.fname(c), ncall, 1)
	}
}

// c04FullRel: the fact relates (loaded tail - loaded head) to q.cap; returns the relation known on that edge.
func c04FullRel(p *P, fct Fact, cursor ssa.Value) string {
	isOcc := func(v ssa.Value) bool {
		sub, ok := stripConv(v).(*ssa.BinOp)
		if !ok || sub.Op != token.SUB {
			return false
		}
		ta, ha := p.atomicOpOfValue(sub.X), p.atomicOpOfValue(sub.Y)
		if ta == nil || ha == nil || ta.Op != "Load" || ha.Op != "Load" || ta.Word != "*queue.tail" || ha.Word != "*queue.head" {
			return false
		}
		return cursor == nil || stripConv(sub.X) == cursor
	}
	isCap := func(v ssa.Value) bool { return isLoadOf(v, "queue.cap") }
	return relOn(fct.Cond, fct.Truth, isOcc, isCap)
}

// atomicOpOfValue: v is the result of a sync/atomic call.
func (p *P) atomicOpOfValue(v ssa.Value) *atomicInfo {
	c, ok := stripConv(v).(*ssa.Call)
	if !ok {
		return nil
	}
	return p.atomicOp(c)
}
