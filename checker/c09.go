package main

import (
	"go/types"
	"strings"

	"golang.org/x/tools/go/ssa"
)

func init() {
	register(&property{
		ID: "C09",
		Explanation: "Decides the ownership discipline of shared-memory chains on every path, including the error exits tests never take: Flush disposes of the outgoing chain on every exit (recycle, fallback copy + recycle, or successful hand-over to the peer); every element the poller dequeues is delivered, recycled, or carries no buffer; " +
			"closing a stream reaches a drain of every container that can hold slices (main list and pinned list of both buffers, pending arrivals); late data for a closed stream is added before the state is read and then cleared; the receive-side re-linker and pendingData.clear dispose of every slice they read; done() returns the unused tail; only the reader funnel, the release role and the close role pop the main list. " +
			"NOT decided: quiescence accounting under concurrent close/receive schedules; buffers in flight in the queue when the session dies.",
		RuleText: "R09.1 path-sensitive must-pass-through over Flush; R09.2 per dequeued element in wire handlers that call the consumer; R09.3 container coverage (fields of type *sliceList of linkedBuffer that receive pushBack; pendingData.unread) from the close role; R09.4 ordering in the data-arrival function; R09.5 per slice read in the re-linker / clear; R09.6 done(); R09.8 census of main-list popFront callers.",
		Run:      runC09,
	})
}

func isNamedPtr(t types.Type, name string) bool {
	pt, ok := t.Underlying().(*types.Pointer)
	return ok && namedName(pt.Elem()) == name
}

// drains: g pops the list in field key until it is empty (every return is on a size()<=0 edge) and
// disposes of every popped slice.
func (p *P) drains(g *ssa.Function, listField string) (bool, string) {
	pops := 0
	for _, ci := range findInstrs(g, p.mCall("(*sliceList).popFront")) {
		c := ci.(*ssa.Call)
		if !isLoadOf(c.Call.Args[0], listField) {
			continue
		}
		pops++
		disp := func(in ssa.Instruction) bool {
			cc, ok := in.(*ssa.Call)
			if !ok {
				return false
			}
			n := p.calleeName(&cc.Call)
			return (n == "(*bufferManager).recycleBuffer" || n == "putBackBufferSlice") && cc.Call.Args[len(cc.Call.Args)-1] == ssa.Value(c)
		}
		if ok, res := p.findBadPath(g, []Point{pointOf(c)}, pathOpts{Discharge: disp, Bad: func(in ssa.Instruction) bool {
			_, isRet := in.(*ssa.Return)
			return isRet || in == ssa.Instruction(c)
		}}); !ok {
			return false, "popped slice not disposed: " + p.pathString(res)
		}
	}
	if pops == 0 {
		return false, "no popFront on " + listField
	}
	isSize := func(v ssa.Value) bool {
		c, okc := v.(*ssa.Call)
		return okc && p.calleeName(&c.Call) == "(*sliceList).size" && isLoadOf(c.Call.Args[0], listField)
	}
	isZero := func(v ssa.Value) bool { c, okc := constInt(v); return okc && c == 0 }
	for _, ret := range returnsOf(g) {
		ok := false
		for _, fct := range factsAt(ret.Block()) {
			if rel := relOn(fct.Cond, fct.Truth, isSize, isZero); rel == "==" || rel == "<=" {
				ok = true
			}
		}
		if !ok {
			return false, "a return is not on the empty-list edge"
		}
	}
	return true, ""
}

func runC09(p *P, r *R) {
	prod, cons := p.queueRoles()
	var prodNames, consNames []string
	for _, f := range prod {
		prodNames = append(prodNames, p.fname(f))
	}
	for _, f := range cons {
		consNames = append(consNames, p.fname(f))
	}
	mPut := p.mPutFamily()
	_ = prodNames
	mPop := p.mCall(consNames...)
	recycle := p.mCall("(*linkedBuffer).recycle")

	// ---- R09.1 Flush
	fl := p.fn("(*Stream).Flush")
	wf := p.fn("(*Stream).writeFallback")
	if fl == nil {
		r.fail("R09.1", "anchor (*Stream).Flush", "", "exported method not found")
	} else {
		r.Scope["(*Stream).Flush"] = true
		isPutErr := func(v ssa.Value) bool {
			return derivedFrom(v, func(x ssa.Value) bool { c, ok := x.(*ssa.Call); return ok && mPut.F(c) }, 4)
		}
		isLenCall := func(v ssa.Value) bool {
			c, ok := v.(*ssa.Call)
			return ok && p.calleeName(&c.Call) == "(*linkedBuffer).Len"
		}
		isZero := func(v ssa.Value) bool { c, okc := constInt(v); return okc && c == 0 }
		fallbackOK := wf != nil && c09RecyclesFirst(p, wf)
		if wf != nil {
			r.ob("R09.1", "(*Stream).writeFallback: the outgoing chain is copied and recycled before the socket send can fail", p.pos(wf.Pos()), fallbackOK, true,
				"recycle() must precede every call that can return an error")
		}
		disch := func(in ssa.Instruction) bool {
			if recycle.F(in) {
				return true
			}
			if c, ok := in.(*ssa.Call); ok && wf != nil && p.localCallee(c) == wf && fallbackOK {
				return true
			}
			return false
		}
		ok, res := p.findBadPath(fl, []Point{{fl.Blocks[0], -1}}, pathOpts{
			Discharge: disch,
			EdgeOK: func(b *ssa.BasicBlock, i int) bool {
				ifi := blockIf(b)
				if ifi == nil {
					return true
				}
				if relOn(ifi.Cond, i == 0, isLenCall, isZero) == "==" {
					return false // nothing buffered: nothing to dispose of
				}
				if relOn(ifi.Cond, i == 0, isPutErr, isNilConst) == "==" {
					return false // enqueue succeeded: the chain now belongs to the peer
				}
				return true
			},
		})
		r.ob("R09.1", "(*Stream).Flush: every exit has disposed of the outgoing chain (recycle, fallback, or successful enqueue)", p.pos(fl.Pos()), ok, true,
			"an exit that neither recycles nor hands the chain to the peer leaks it: %s", p.pathString(res))
		r.count("R09.1", "enqueue sites in Flush", len(findInstrs(fl, mPut)), 1)
		// R09.15 once the enqueue succeeded the chain belongs to the peer (its consumer may pick the element up without any
		// wake-up): no path from the enqueue-succeeded edge recycles it — whatever fails afterwards
		nSucc := 0
		for _, b := range fl.Blocks {
			ifi := blockIf(b)
			if ifi == nil {
				continue
			}
			for i := range b.Succs {
				if relOn(ifi.Cond, i == 0, isPutErr, isNilConst) != "==" {
					continue
				}
				nSucc++
				okp, res := p.findBadPath(fl, []Point{{b.Succs[i], -1}}, pathOpts{Bad: func(in ssa.Instruction) bool {
					if _, isCall := in.(*ssa.Call); !isCall {
						return false
					}
					return p.evMay(in, recycle, 2)
				}})
				r.ob("R09.15", "(*Stream).Flush: a chain that was enqueued successfully is never recycled by the sender", p.ipos(ifi), okp, true,
					"after the hand-over the peer owns the slices; recycling them here gives them two owners: %s", p.pathString(res))
			}
		}
		r.count("R09.15", "enqueue-succeeded edges in Flush", nSucc, 1)
		// the chain handed over is the one that was built: offset operand comes from the send buffer's root
		nRoot, nSites := 0, 0
		_, wr := p.putFamily()
		prodQ, _ := p.queueRoles()
		var prodNamesQ []string
		for _, pf := range prodQ {
			prodNamesQ = append(prodNamesQ, p.fname(pf))
		}
		for _, g := range append([]*ssa.Function{fl}, wr...) {
			for _, pi := range findInstrs(g, p.mCall(prodNamesQ...)) {
				nSites++
				okRoot := false
				for _, st := range elementFieldStores(pi, 1, "queueElement.offsetInShmBuf") {
					if c, ok := st.Val.(*ssa.Call); ok && p.calleeName(&c.Call) == "(*linkedBuffer).rootBufOffset" {
						okRoot = true
					}
				}
				if !okRoot {
					// the element is a parameter of an enqueue helper: judged at the helper's call sites in Flush
					if cc := callCommon(pi); cc != nil && len(cc.Args) > 1 {
						if _, isParam := cc.Args[1].(*ssa.Parameter); isParam && g != fl {
							nSites--
							continue
						}
					}
				}
				if okRoot {
					nRoot++
				}
			}
		}
		r.ob("R09.1", "(*Stream).Flush: every element enqueued carries the root offset of the flushed chain", p.pos(fl.Pos()),
			nRoot >= nSites && nRoot > 0, true, "%d root-offset stores for %d enqueue sites (Flush and its enqueue helpers)", nRoot, nSites)
	}

	// ---- R09.2 poller
	wh := p.wireHandlers()
	nPoll := 0
	for _, f := range wh {
		pops := findInstrs(f, mPop)
		if len(pops) == 0 {
			continue
		}
		nPoll++
		fn := p.fname(f)
		r.Scope[fn] = true
		isPopErr := func(v ssa.Value) bool {
			return derivedFrom(v, func(x ssa.Value) bool {
				e, ok := x.(*ssa.Extract)
				if !ok || e.Index != 1 {
					return false
				}
				c, ok := e.Tuple.(*ssa.Call)
				return ok && mPop.F(c)
			}, 3)
		}
		isState := func(v ssa.Value) bool {
			return namedName(v.Type()) == "streamState"
		}
		isOpened := func(v ssa.Value) bool { c, ok := constInt(v); return ok && c == 0 }
		// start: the loop-body edge (pop err == nil)
		var starts []Point
		for _, b := range f.Blocks {
			ifi := blockIf(b)
			if ifi == nil {
				continue
			}
			for i := range b.Succs {
				if relOn(ifi.Cond, i == 0, isPopErr, isNilConst) == "==" {
					starts = append(starts, Point{b.Succs[i], -1})
				}
			}
		}
		r.count("R09.2", "loop-body entries (dequeued element) in "+fn, len(starts), 1)
		stateEdge := func(b *ssa.BasicBlock, i int) bool {
			ifi := blockIf(b)
			if ifi == nil {
				return true
			}
			// an element whose state is not "opened" carries no buffer
			return relOn(ifi.Cond, i == 0, isState, isOpened) != "!="
		}
		var disch func(in ssa.Instruction) bool
		var disposes func(g *ssa.Function, depth int) bool
		disposes = func(g *ssa.Function, depth int) bool {
			if depth <= 0 || g.Blocks == nil {
				return false
			}
			okg, _ := p.findBadPath(g, []Point{{g.Blocks[0], -1}}, pathOpts{
				Discharge: disch,
				Bad: func(in ssa.Instruction) bool {
					ret, isRet := in.(*ssa.Return)
					return isRet && !isErrorExit(ret)
				},
				EdgeOK: stateEdge,
			})
			return okg
		}
		disch = func(in ssa.Instruction) bool {
			c, ok := in.(*ssa.Call)
			if !ok {
				return false
			}
			n := p.calleeName(&c.Call)
			if n == "(*Session).handleStreamMessage" || n == "(*bufferManager).recycleBuffers" {
				return true
			}
			// a per-element helper (takes the element) that disposes of it on every non-error exit
			if g := p.localCallee(c); g != nil {
				for _, a := range c.Call.Args {
					if namedName(a.Type()) == "queueElement" {
						return disposes(g, 2)
					}
				}
			}
			return false
		}
		ok, res := p.findBadPath(f, starts, pathOpts{
			Discharge: disch,
			Bad: func(in ssa.Instruction) bool {
				if ret, isRet := in.(*ssa.Return); isRet {
					return !isErrorExit(ret)
				}
				return mPop.F(in) // next dequeue without having disposed of this element
			},
			EdgeOK: func(b *ssa.BasicBlock, i int) bool {
				ifi := blockIf(b)
				if ifi == nil {
					return true
				}
				// an element whose state is not "opened" carries no buffer
				return relOn(ifi.Cond, i == 0, isState, isOpened) != "!="
			},
		})
		r.ob("R09.2", fn+": every dequeued element is delivered to its stream, recycled, or carries no buffer", p.pos(f.Pos()), ok, true,
			"data for a stream that no longer exists must be recycled by the poller: %s", p.pathString(res))
		// the unknown-stream recycle reads the slice at the element's own offset
		for _, ci := range findInstrs(f, p.mCall("(*bufferManager).recycleBuffers")) {
			arg := ci.(*ssa.Call).Call.Args[1]
			okArg := false
			if e, ok := arg.(*ssa.Extract); ok {
				if c, ok := e.Tuple.(*ssa.Call); ok && p.calleeName(&c.Call) == "(*bufferManager).readBufferSlice" {
					okArg = isLoadOf(c.Call.Args[1], "queueElement.offsetInShmBuf")
				}
			}
			r.ob("R09.2", fn+": the chain recycled for an unknown stream is the one the element points to", p.ipos(ci), okArg, true, "")
		}
	}
	r.count("R09.2", "polling handlers", nPoll, 1)

	// ---- R09.3 container coverage on close
	lbRecycle := p.fn("(*linkedBuffer).recycle")
	clean := p.fn("(*Stream).clean")
	closeFn := p.fn("(*Stream).close")
	if lbRecycle == nil || clean == nil || closeFn == nil {
		r.fail("R09.3", "anchors (*linkedBuffer).recycle / (*Stream).clean / (*Stream).close", "", "function not found")
	} else {
		// discover the containers: *sliceList fields of linkedBuffer into which something is pushed
		lbObj := p.TPkg.Scope().Lookup("linkedBuffer")
		var containers []string
		if lbObj != nil {
			if st, ok := lbObj.Type().Underlying().(*types.Struct); ok {
				for i := 0; i < st.NumFields(); i++ {
					if isNamedPtr(st.Field(i).Type(), "sliceList") {
						key := "linkedBuffer." + st.Field(i).Name()
						pushed := false
						for _, f := range p.fnList {
							for _, ci := range findInstrs(f, p.mCall("(*sliceList).pushBack")) {
								if isLoadOf(ci.(*ssa.Call).Call.Args[0], key) {
									pushed = true
								}
							}
						}
						if pushed {
							containers = append(containers, key)
						}
					}
				}
			}
		}
		r.role("slice containers of linkedBuffer (receive pushBack)", containers)
		r.count("R09.3", "slice containers of linkedBuffer", len(containers), 2)
		for _, key := range containers {
			okD, why := p.drains(lbRecycle, key)
			via := "(*linkedBuffer).recycle"
			if !okD {
				// a callee that recycle always runs may drain it
				for _, g := range p.fnList {
					if g == lbRecycle {
						continue
					}
					if ok2, _ := p.drains(g, key); ok2 && p.must(lbRecycle, p.mCallD(p.fname(g)), 1) {
						okD, via = true, "(*linkedBuffer).recycle -> "+p.fname(g)
					}
				}
			}
			r.ob("R09.3", "closing a stream drains container "+key, p.pos(lbRecycle.Pos()), okD, true,
				"via %s; %s — a container that close does not drain keeps its shared-memory slices allocated forever", via, why)
		}
		// clean(): recycle both buffers, clear pending
		for _, fld := range []string{"Stream.recvBuf", "Stream.sendBuf"} {
			m := M{ID: "recycle:" + fld, F: func(in ssa.Instruction) bool {
				return recycle.F(in) && isLoadOf(in.(*ssa.Call).Call.Args[0], fld)
			}}
			r.ob("R09.3", "(*Stream).clean: recycles "+fld, p.pos(clean.Pos()), p.must(clean, m, 0), true, "")
		}
		r.ob("R09.3", "(*Stream).clean: clears the pending arrivals", p.pos(clean.Pos()), p.must(clean, p.mCall("(*pendingData).clear"), 0), true, "")
		// close(): the CAS-success edge reaches clean()
		casM := p.mAtomic("CAS", "Stream.state")
		n := 0
		for _, b := range closeFn.Blocks {
			ifi := blockIf(b)
			if ifi == nil {
				continue
			}
			c, pol := condCall(ifi.Cond)
			if c == nil || !casM.F(c) {
				continue
			}
			n++
			win := 0
			if !pol {
				win = 1
			}
			res := p.mustPass(closeFn, []Point{{b.Succs[win], -1}}, func(in ssa.Instruction) bool { return p.mCall("(*Stream).clean").F(in) }, nil, nil)
			r.ob("R09.3", "(*Stream).close: the goroutine that wins the state CAS always cleans the stream", p.ipos(ifi), res.OK, true, "%s", p.pathString(res))
		}
		r.count("R09.3", "state CAS in (*Stream).close", n, 1)
	}

	// ---- R09.4 late data
	fd := p.fn("(*Stream).fillDataToReadBuffer")
	if fd == nil {
		r.fail("R09.4", "anchor (*Stream).fillDataToReadBuffer", "", "function not found")
	} else {
		adds := findInstrs(fd, p.mCall("(*pendingData).add"))
		states := findInstrs(fd, p.mCall("(*Stream).getStreamState"))
		states = append(states, findInstrs(fd, p.mAtomic("Load", "Stream.state"))...)
		r.count("R09.4", "pendingData.add in fillDataToReadBuffer", len(adds), 1)
		r.count("R09.4", "state reads in fillDataToReadBuffer", len(states), 1)
		for _, s := range states {
			ok := false
			for _, a := range adds {
				if instrDominates(a, s) {
					ok = true
				}
			}
			r.ob("R09.4", "(*Stream).fillDataToReadBuffer: the arrival is published before the stream state is read", p.ipos(s), ok, true,
				"check-then-add leaks the chain when close() runs in between (its clear() has already happened)")
		}
		isState := func(v ssa.Value) bool {
			c, ok := v.(*ssa.Call)
			return ok && p.calleeName(&c.Call) == "(*Stream).getStreamState"
		}
		isClosed := func(v ssa.Value) bool { c, ok := constInt(v); return ok && c == 1 }
		nEdge := 0
		for _, b := range fd.Blocks {
			ifi := blockIf(b)
			if ifi == nil {
				continue
			}
			for i := range b.Succs {
				if relOn(ifi.Cond, i == 0, isState, isClosed) == "==" {
					nEdge++
					res := p.mustPass(fd, []Point{{b.Succs[i], -1}}, func(in ssa.Instruction) bool { return p.evMust(in, p.mCall("(*pendingData).clear"), 2) }, nil, nil)
					r.ob("R09.4", "(*Stream).fillDataToReadBuffer: data arriving for a closed stream is cleared (recycled)", p.ipos(ifi), res.OK, true, "%s", p.pathString(res))
				}
			}
		}
		r.count("R09.4", "closed-stream edges in fillDataToReadBuffer", nEdge, 1)
	}

	// ---- R09.5 re-linker and clear
	mv := p.fn("(*pendingData).moveToWithoutLock")
	if mv == nil {
		r.fail("R09.5", "anchor (*pendingData).moveToWithoutLock", "", "function not found")
	} else {
		n := 0
		for _, ci := range findInstrs(mv, p.mCall("(*bufferManager).readBufferSlice")) {
			c := ci.(*ssa.Call)
			var x, errv ssa.Value
			for _, ref := range *c.Referrers() {
				if e, ok := ref.(*ssa.Extract); ok {
					if e.Index == 0 {
						x = e
					} else {
						errv = e
					}
				}
			}
			if x == nil {
				continue
			}
			n++
			disp := func(in ssa.Instruction) bool {
				cc, ok := in.(*ssa.Call)
				if !ok {
					return false
				}
				nm := p.calleeName(&cc.Call)
				return (nm == "(*bufferManager).recycleBuffer" || nm == "(*linkedBuffer).appendBufferSlice") && cc.Call.Args[1] == x
			}
			ok, res := p.findBadPath(mv, []Point{pointOf(c)}, pathOpts{
				Discharge: disp,
				Bad: func(in ssa.Instruction) bool {
					_, isRet := in.(*ssa.Return)
					return isRet || in == ssa.Instruction(c)
				},
				EdgeOK: func(b *ssa.BasicBlock, i int) bool { return errv == nil || !edgeKnownNonNil(b, i, errv) },
			})
			r.ob("R09.5", "(*pendingData).moveToWithoutLock: every slice read from shared memory is appended to the buffer or recycled", p.ipos(c), ok, true,
				"(the readBufferSlice error edge is exempt: corrupt shared memory, the session is being torn down) %s", p.pathString(res))
		}
		r.count("R09.5", "slice reads in the re-linker", n, 1)
	}
	cl := p.fn("(*pendingData).clear")
	if cl == nil {
		r.fail("R09.5", "anchor (*pendingData).clear", "", "function not found")
	} else {
		// loop body: each entry is put back (fallback) or its chain recycled
		disp := func(in ssa.Instruction) bool {
			cc, ok := in.(*ssa.Call)
			if !ok {
				return false
			}
			nm := p.calleeName(&cc.Call)
			return nm == "(*bufferManager).recycleBuffers" || nm == "putBackBufferSlice"
		}
		var starts []Point
		for _, b := range cl.Blocks {
			if b.Comment == "rangeindex.body" {
				starts = append(starts, Point{b, -1})
			}
		}
		r.count("R09.5", "range bodies in pendingData.clear", len(starts), 1)
		var errv ssa.Value
		for _, ci := range findInstrs(cl, p.mCall("(*bufferManager).readBufferSlice")) {
			for _, ref := range *ci.(*ssa.Call).Referrers() {
				if e, ok := ref.(*ssa.Extract); ok && e.Index == 1 {
					errv = e
				}
			}
		}
		ok, res := p.findBadPath(cl, starts, pathOpts{
			Discharge: disp,
			Bad: func(in ssa.Instruction) bool {
				if _, isRet := in.(*ssa.Return); isRet {
					return true
				}
				// next iteration: the range-loop header's index increment
				return false
			},
			EdgeOK: func(b *ssa.BasicBlock, i int) bool {
				if errv != nil && edgeKnownNonNil(b, i, errv) {
					return false
				}
				return b.Succs[i].Comment != "rangeindex.loop" || true
			},
		})
		// iteration-to-iteration: from body start, reaching the loop header again without disposal
		again := false
		for _, st := range starts {
			for _, b := range cl.Blocks {
				if b.Comment == "rangeindex.loop" && len(b.Instrs) > 0 {
					if p.reachesWithout(st, b.Instrs[0], disp, func(bb *ssa.BasicBlock, i int) bool { return errv == nil || !edgeKnownNonNil(bb, i, errv) }) {
						again = true
					}
				}
			}
		}
		r.ob("R09.5", "(*pendingData).clear: every pending entry is put back (fallback) or its chain recycled", p.pos(cl.Pos()), ok && !again, true, "%s", p.pathString(res))
		// and the list is emptied
		emptied := false
		allInstrs(cl, func(in ssa.Instruction) {
			if st, ok := in.(*ssa.Store); ok && wordOf(st.Addr) == "pendingData.unread" {
				if sl, ok := st.Val.(*ssa.Slice); ok {
					if c, ok := constInt(sl.High); ok && c == 0 {
						emptied = true
					}
				}
			}
		})
		r.ob("R09.5", "(*pendingData).clear: the pending list is emptied", p.pos(cl.Pos()), emptied, false, "")
	}

	// ---- R09.6 done()
	dn := p.fn("(*linkedBuffer).done")
	if dn == nil {
		r.fail("R09.6", "anchor (*linkedBuffer).done", "", "function not found")
	} else {
		splits := findInstrs(dn, p.mCall("(*sliceList).splitFromWrite"))
		r.count("R09.6", "splitFromWrite in done()", len(splits), 1)
		nrec := 0
		for _, ri := range findInstrs(dn, p.mCall("(*bufferManager).recycleBuffer")) {
			rc := ri.(*ssa.Call)
			x := rc.Call.Args[1]
			from := derivedFrom(x, func(v ssa.Value) bool {
				c, ok := v.(*ssa.Call)
				return ok && p.calleeName(&c.Call) == "(*sliceList).splitFromWrite"
			}, 4)
			nrec++
			r.ob("R09.6", "(*linkedBuffer).done: the unused tail split off after the write slice is recycled", p.ipos(rc), from, true, "")
			// the successor is read before the slice is recycled (recycling clears nextSlice)
			cut := map[*ssa.BasicBlock]bool{}
			if xi, ok := x.(ssa.Instruction); ok && xi.Block() != nil {
				cut[xi.Block()] = true
			}
			bad := false
			allInstrs(dn, func(in ssa.Instruction) {
				if u, ok := in.(*ssa.UnOp); ok {
					if fa, ok := u.X.(*ssa.FieldAddr); ok && fieldKey(fa) == "bufferSlice.nextSlice" && fa.X == x && p.reaches(rc, in, cut) {
						bad = true
					}
				}
			})
			r.ob("R09.6", "(*linkedBuffer).done: the next slice is read before the current one is recycled", p.ipos(rc), !bad, true, "putBackBufferSlice clears nextSlice: reading it afterwards drops the rest of the unused tail")
		}
		r.count("R09.6", "recycle sites in done()", nrec, 1)
		// the loop over the split tail is entered whenever a tail exists
		guard := false
		for _, s := range splits {
			for _, fct := range factsAt(s.Block()) {
				isNext := func(v ssa.Value) bool {
					c, ok := v.(*ssa.Call)
					return ok && p.calleeName(&c.Call) == "(*bufferSlice).next"
				}
				if relOn(fct.Cond, fct.Truth, isNext, isNilConst) == "!=" {
					guard = true
				}
			}
		}
		r.ob("R09.6", "(*linkedBuffer).done: the tail is split off whenever the write slice has a successor", p.pos(dn.Pos()), guard, true, "")
	}

	// ---- R09.9 ReleaseReadAndReuse swaps the buffers only when the read buffer is fully consumed and holds exactly one slice
	if rr := p.fn("(*Stream).ReleaseReadAndReuse"); rr != nil {
		n := 0
		for _, si := range findInstrs(rr, mStoreWord("Stream.recvBuf")) {
			n++
			lenZero, oneSlice := false, false
			for _, fct := range factsAt(si.Block()) {
				// both tests must be about the *read* buffer (the one that is about to become the write buffer)
				ofRecv := func(v ssa.Value) bool {
					fa, okf := loadOfField(v)
					return okf && isLoadOf(fa.X, "Stream.recvBuf")
				}
				isLen := func(v ssa.Value) bool { return isLoadOf(v, "linkedBuffer.len") && ofRecv(v) }
				isSz := func(v ssa.Value) bool {
					c, okc := v.(*ssa.Call)
					return okc && p.calleeName(&c.Call) == "(*sliceList).size" && isLoadOf(c.Call.Args[0], "linkedBuffer.sliceList") && ofRecv(c.Call.Args[0])
				}
				isK := func(k int64) func(ssa.Value) bool {
					return func(v ssa.Value) bool { c, okc := constInt(v); return okc && c == k }
				}
				if relOn(fct.Cond, fct.Truth, isLen, isK(0)) == "==" {
					lenZero = true
				}
				if relOn(fct.Cond, fct.Truth, isSz, isK(1)) == "==" {
					oneSlice = true
				}
			}
			released := false
			for _, ci := range findInstrs(rr, p.mCall("(*linkedBuffer).releasePreviousReadAndReserve")) {
				if instrDominates(ci, si) {
					released = true
				}
			}
			r.ob("R09.9", "ReleaseReadAndReuse: the read buffer becomes the write buffer only after the release, when it is empty and holds one slice", p.ipos(si), lenZero && oneSlice && released, true,
				"swapping a buffer that still holds unread slices hands them to the writer: they are overwritten or never recycled")
		}
		r.count("R09.9", "buffer swaps in ReleaseReadAndReuse", n, 1)
	}

	// ---- R09.10 recycling a chain returns every slice (shared with C02); R09.7 the stream pool closes what it discards
	// (shared with C15); R09.11 the release role returns every pinned slice (shared with C08)
	borrow(p, r, "C02", runC02, map[string]string{"R02.3": "R09.10", "R02.5": "R09.10", "R02.6": "R09.10", "R02.10": "R09.10"}, nil)
	borrow(p, r, "C15", runC15, map[string]string{"R15.1": "R09.7", "R15.2": "R09.7"}, nil)
	borrow(p, r, "C08", runC08, map[string]string{"R08.4": "R09.11"}, nil)
	// R09.14 a Close() that met a running callback is always finished (otherwise the stream stays registered and keeps
	// its slices for the life of the session) (shared with C10 R10.8)
	borrow(p, r, "C10", runC10, map[string]string{"R10.8": "R09.14"}, nil)

	// ---- R09.8 census of main-list popFront callers
	allowed := map[string]string{
		"(*linkedBuffer).readNextSlice":                 "reader funnel (pinned decision, C08 R08.2)",
		"(*linkedBuffer).recycle":                       "close role drain",
		"(*linkedBuffer).clean":                         "drops already-recycled wrappers",
		"(*linkedBuffer).ReleasePreviousRead":           "release role: fully consumed write slice",
		"(*linkedBuffer).releasePreviousReadAndReserve": "release role: non-shm slice returned to the pool",
	}
	n := 0
	for _, f := range p.fnList {
		for _, ci := range findInstrs(f, p.mCall("(*sliceList).popFront")) {
			if !isLoadOf(ci.(*ssa.Call).Call.Args[0], "linkedBuffer.sliceList") {
				continue
			}
			n++
			_, ok := allowed[p.fname(f)]
			r.ob("R09.8", p.fname(f)+": pops the buffer's main slice list", p.ipos(ci), ok, true,
				"a popped slice must meet the pinned decision or a recycle; only the reader funnel, the release role and the close role may pop")
		}
	}
	r.count("R09.8", "main-list popFront sites", n, 4)
	// clean() only drops wrappers after recycle() drained the list: recycle calls clean after its loop
	if lbRecycle != nil {
		okOrder := false
		for _, ci := range findInstrs(lbRecycle, p.mCall("(*linkedBuffer).clean")) {
			isSize := func(v ssa.Value) bool {
				c, okc := v.(*ssa.Call)
				return okc && p.calleeName(&c.Call) == "(*sliceList).size"
			}
			isZero := func(v ssa.Value) bool { c, okc := constInt(v); return okc && c == 0 }
			for _, fct := range factsAt(ci.Block()) {
				if rel := relOn(fct.Cond, fct.Truth, isSize, isZero); rel == "<=" || rel == "==" {
					okOrder = true
				}
			}
		}
		r.ob("R09.8", "(*linkedBuffer).recycle: clean() runs only after the main list was drained", p.pos(lbRecycle.Pos()), okOrder, true, "clean() returns wrappers to the pool without recycling their shared memory")
	}
	// ---- R09.12 who may forget a buffer's slices: a "forgetter" pops the main list and returns the wrappers to the
	// object pool without recycling their shared memory (clean()). It may run only where the chain was drained
	// (recycle, checked above), at the exit of Flush (whose every exit has disposed of the chain, R09.1), or after a
	// recycle of the buffer on every path. Anywhere else it drops shared memory that is still owned.
	var forgetters []*ssa.Function
	for _, f := range p.fnList {
		pops := false
		for _, ci := range findInstrs(f, p.mCall("(*sliceList).popFront")) {
			if isLoadOf(ci.(*ssa.Call).Call.Args[0], "linkedBuffer.sliceList") {
				for _, ref := range *ci.(*ssa.Call).Referrers() {
					if c, ok := ref.(*ssa.Call); ok && p.calleeName(&c.Call) == "putBackBufferSlice" {
						// on the branch where *this very slice* is known not to be shared memory there is nothing to recycle:
						// the flag tested must be the popped slice's own (or that of front() of the same list, which is the
						// slice popFront() then removes) — the buffer-level linkedBuffer.isFromShm says nothing about one slice
						popped := ci.(*ssa.Call)
						nonShm := false
						for _, fct := range factsAt(c.Block()) {
							cond, neg := stripNot(fct.Cond)
							if !isLoadOf(cond, "bufferSlice.isFromShm") || fct.Truth != neg {
								continue
							}
							fa, _ := loadOfField(cond)
							switch x := fa.X.(type) {
							case *ssa.Call:
								if x == popped {
									nonShm = true
								}
								if p.calleeName(&x.Call) == "(*sliceList).front" && sameExpr(x.Call.Args[0], popped.Call.Args[0], 3) {
									nonShm = true
								}
							}
						}
						// or the slice went through the recycler (which tells shm from non-shm itself) first
						for _, ref2 := range *popped.Referrers() {
							if c2, ok2 := ref2.(*ssa.Call); ok2 && (p.calleeName(&c2.Call) == "(*bufferManager).recycleBuffer" || p.calleeName(&c2.Call) == "(*bufferManager).recycleBuffers") && instrDominates(c2, c) {
								nonShm = true
							}
						}
						if !nonShm {
							pops = true
							// a disposal that *is* decided by an is-shared-memory flag, but not by the slice's own, is plainly wrong
							for _, fct := range factsAt(c.Block()) {
								cond, _ := stripNot(fct.Cond)
								if fa, okf := loadOfField(cond); okf && strings.HasSuffix(fieldKey(fa), ".isFromShm") {
									r.fail("R09.13", p.fname(f)+": whether a popped slice is recycled or merely returned to the object pool is decided by that slice's own isFromShm flag", p.ipos(c),
										"decided by %s instead: a buffer that mixes shared-memory and heap slices (allocation fell back) drops its shared-memory slices", fieldKey(fa))
								}
							}
						}
					}
				}
			}
		}
		if pops {
			forgetters = append(forgetters, f)
		}
	}
	r.role("forgetters (drop slices without recycling)", p.names(forgetters))
	r.count("R09.12", "forgetter functions", len(forgetters), 1)
	nCalls := 0
	for _, g := range forgetters {
		gm := p.mCallD(p.fname(g))
		for _, f := range p.fnList {
			for _, ci := range findInstrs(f, gm) {
				nCalls++
				fn := p.fname(f)
				ok, why := false, ""
				_, isDefer := ci.(*ssa.Defer)
				host := f
				if par := deferredClosureHost(f); par != nil && !isDefer {
					host, isDefer = par, true // `defer func() { ...clean() }()`
				}
				switch {
				case host == lbRecycle && f == host:
					ok, why = true, "drain role (order checked by R09.8)"
				case host == fl && isDefer:
					ok, why = true, "runs at the exit of Flush, every exit of which has disposed of the chain (R09.1)"
				default:
					if _, isGo := ci.(*ssa.Go); !isGo && !isDefer {
						// every path from the entry to the call has recycled a buffer or handed the chain over
						bad := p.reachesWithout(Point{f.Blocks[0], -1}, ci, func(in ssa.Instruction) bool { return p.evMust(in, recycle, 2) }, nil)
						ok, why = !bad, "preceded by recycle() on every path"
					}
				}
				r.ob("R09.12", fn+": forgets the slices of a buffer ("+p.fname(g)+") only after they were recycled or handed over", p.ipos(ci), ok, true, "%s", why)
			}
		}
	}
	r.count("R09.12", "call sites of forgetters", nCalls, 2)
}

// c09RecyclesFirst: in writeFallback the recycle of the send buffer precedes every call whose error
// result is returned.
func c09RecyclesFirst(p *P, wf *ssa.Function) bool {
	recs := findInstrs(wf, p.mCall("(*linkedBuffer).recycle"))
	if len(recs) == 0 {
		return false
	}
	for _, ret := range returnsOf(wf) {
		ok := false
		for _, rc := range recs {
			if instrDominates(rc, ret) {
				// and the failing call (whose result is returned) comes after the recycle
				if c, isCall := lastResult(ret).(*ssa.Call); !isCall || instrDominates(rc, c) {
					ok = true
				}
			}
		}
		if !ok {
			return false
		}
	}
	return true
}

// deferredClosureHost: f is an anonymous function that its parent only ever defers (`defer func() {...}()`);
// returns the parent.
func deferredClosureHost(f *ssa.Function) *ssa.Function {
	par := f.Parent()
	if par == nil {
		return nil
	}
	found := false
	ok := true
	allInstrs(par, func(in ssa.Instruction) {
		var ops []*ssa.Value
		for _, op := range in.Operands(ops) {
			if *op == nil {
				continue
			}
			v := *op
			if mc, isMC := v.(*ssa.MakeClosure); isMC {
				v = mc.Fn
			}
			if v == ssa.Value(f) {
				if _, isMC := in.(*ssa.MakeClosure); isMC {
					continue
				}
				if d, isD := in.(*ssa.Defer); isD && len(d.Call.Args) == 0 {
					found = true
				} else {
					ok = false
				}
			}
		}
	})
	if found && ok {
		return par
	}
	return nil
}
