package main

import (
	"go/types"
	"strings"

	"golang.org/x/tools/go/ssa"
)

func init() {
	register(&property{
		ID: "C14",
		Explanation: "Decides the teardown discipline structurally: every effect of Session.Close is behind the success edge of CAS(shutdown,0,1) (idempotence); every close() of a struct-field channel is once-guarded (a won CAS on the same object or a sync.Once closure); every failure signal of the connection (EPOLLRDHUP, read of 0 bytes, write error) reaches Session.Close through exitErr; Close wakes every stream (closes its notify channel) before the teardown, so pending reads - also inside callbacks - fail instead of hanging the event loop; " +
			"the teardown closure posted by Close releases everything the session acquired (event connection, every stream + its callback wait, buffer-manager reference, queue mapping) on every path, and the unmap routines release the mapping and, for each mapping type, the file or descriptor; the stream table that teardown sets to nil is written only behind a nil test under its lock or from event-loop-only code; everything registered (dispatcher table, global buffer-manager table, listener session set) has its unregistration on the teardown path. " +
			"NOT decided: unmap racing with a Flush/read still in flight, fd/mapping census after arbitrary crash points, hangs.",
		RuleText: "R14.1 dominance of every store/call/close in Session.Close by the CAS-success edge; R14.2 census of close(ch); R14.3 call-chain reachability from the failure branches; R14.4 must-pass-through in the teardown closure (nil-guard edges pruned) and in the unmap routines; R14.5 census of writes to Session.streams; R14.6 wake-all-streams-before-teardown in Session.Close (shared with C11 R11.2); R14.7 insert/delete pairing of the registries.",
		Run:      runC14,
	})
}

func isBuiltinCall(in ssa.Instruction, name string) (*ssa.Call, bool) {
	c, ok := in.(*ssa.Call)
	if !ok {
		return nil, false
	}
	b, ok := c.Call.Value.(*ssa.Builtin)
	if !ok || b.Name() != name {
		return nil, false
	}
	return c, true
}

func runC14(p *P, r *R) {
	sc := p.fn("(*Session).Close")
	if sc == nil {
		r.fail("R14.1", "anchor (*Session).Close", "", "exported method not found")
		return
	}
	casM := p.mAtomic("CAS", "Session.shutdown")
	cass := findInstrs(sc, casM)
	r.count("R14.1", "CAS(shutdown,0,1) in Session.Close", len(cass), 1)
	// ---- R14.1 every effect behind the CAS success edge
	nEff := 0
	allInstrs(sc, func(in ssa.Instruction) {
		effect := false
		switch x := in.(type) {
		case *ssa.Store:
			if _, local := x.Addr.(*ssa.Alloc); !local {
				effect = true
			}
		case *ssa.Call:
			if casM.F(in) {
				return
			}
			n := p.calleeName(&x.Call)
			switch n {
			case "builtin:len", "(*Session).IsClosed", "(*Session).getSessionShutdown":
			default:
				effect = true
			}
		case *ssa.Go, *ssa.Send, *ssa.MapUpdate:
			effect = true
		}
		if !effect {
			return
		}
		nEff++
		r.ob("R14.1", "Session.Close: "+describeEffect(p, in)+" happens only for the caller that won CAS(shutdown,0,1)", p.ipos(in), p.guardedByCall(in, casM, true), true,
			"a second Close must return without repeating any teardown step")
	})
	r.count("R14.1", "effects in Session.Close", nEff, 5)
	for _, ci := range cass {
		c := ci.(*ssa.Call)
		o, ok1 := constInt(c.Call.Args[1])
		n, ok2 := constInt(c.Call.Args[2])
		r.ob("R14.1", "Session.Close: the shutdown word moves 0 -> 1 exactly once", p.ipos(ci), ok1 && ok2 && o == 0 && n == 1, true, "")
	}
	// nobody else writes shutdown
	for _, f := range p.fnList {
		allInstrs(f, func(in ssa.Instruction) {
			if st, ok := in.(*ssa.Store); ok && wordOf(st.Addr) == "Session.shutdown" {
				r.fail("R14.1", p.fname(f)+": plain store to Session.shutdown", p.ipos(in), "")
			}
			if a := p.atomicOp(in); a != nil && a.Word == "Session.shutdown" && a.Op != "Load" && f != sc {
				r.fail("R14.1", p.fname(f)+": atomic "+a.Op+" on Session.shutdown outside Close", p.ipos(in), "")
			}
		})
	}

	// ---- R14.2 once-guarded channel closes
	nClose := 0
	for _, f := range p.fnList {
		fn := p.fname(f)
		allInstrs(f, func(in ssa.Instruction) {
			c, ok := isBuiltinCall(in, "close")
			if !ok {
				return
			}
			fa, isField := loadOfField(c.Call.Args[0])
			if !isField {
				return // local channel
			}
			nClose++
			key := fieldKey(fa)
			owner := namedName(fa.X.Type())
			guarded := false
			// (a) a won CAS on a word of the same struct type
			for _, fct := range factsAt(in.Block()) {
				call, pol := condCall(fct.Cond)
				if call == nil || fct.Truth != pol {
					continue
				}
				if a := p.atomicOp(call); a != nil && a.Op == "CAS" && len(a.Word) > len(owner) && a.Word[:len(owner)+1] == owner+"." {
					guarded = true
				}
			}
			// (b) inside a closure passed to sync.Once.Do
			if !guarded && f.Parent() != nil {
				allInstrs(f.Parent(), func(pi ssa.Instruction) {
					pc, ok := pi.(*ssa.Call)
					if !ok || p.calleeName(&pc.Call) != "(*sync.Once).Do" {
						return
					}
					for _, g := range closureArgs(pc) {
						if g == f {
							guarded = true
						}
					}
				})
			}
			r.ob("R14.2", fn+": close("+key+") is once-guarded", p.ipos(in), guarded, true,
				"closing a closed channel panics; concurrent Close + exitErr reach this only under a race no test provokes")
		})
	}
	r.count("R14.2", "close() of struct-field channels", nClose, 4)

	// ---- R14.3 failure signals end the session
	he := p.fn("(*connEventHandler).handleEvent")
	orr := p.fn("(*connEventHandler).onReadReady")
	orc := p.fn("(*connEventHandler).onRemoteClose")
	wed := p.fn("(*Session).writeEventData")
	sor := p.fn("(*Session).onRemoteClose")
	ee := p.fn("(*Session).exitErr")
	if he == nil || orr == nil || orc == nil || wed == nil || sor == nil || ee == nil {
		r.fail("R14.3", "anchors of the failure-signal chain", "", "handleEvent/onReadReady/onRemoteClose/writeEventData/exitErr not all found")
	} else {
		mORC := p.mCall("(*connEventHandler).onRemoteClose")
		// EPOLLRDHUP branch
		okHup := false
		for _, ci := range findInstrs(he, mORC) {
			for _, fct := range factsAt(ci.Block()) {
				if bo, ok := fct.Cond.(*ssa.BinOp); ok {
					if and, ok := bo.X.(*ssa.BinOp); ok {
						if c, ok := constInt(and.Y); ok && c == 0x2000 && fct.Truth { // EPOLLRDHUP
							okHup = true
						}
					}
				}
			}
		}
		r.ob("R14.3", "handleEvent: EPOLLRDHUP leads to onRemoteClose", p.pos(he.Pos()), okHup, true, "")
		// read == 0 branch
		okEOF := false
		for _, ci := range findInstrs(orr, mORC) {
			for _, fct := range factsAt(ci.Block()) {
				isN := func(v ssa.Value) bool {
					e, ok := v.(*ssa.Extract)
					return ok && e.Index == 0
				}
				isZero := func(v ssa.Value) bool { c, ok := constInt(v); return ok && c == 0 }
				if relOn(fct.Cond, fct.Truth, isN, isZero) == "==" {
					okEOF = true
				}
			}
		}
		r.ob("R14.3", "onReadReady: a read of 0 bytes leads to onRemoteClose", p.pos(orr.Pos()), okEOF, true, "")
		// the handler's onRemoteClose invokes the callback's, which (VTA) is Session.onRemoteClose
		okInv := false
		allInstrs(orc, func(in ssa.Instruction) {
			if c, ok := in.(*ssa.Call); ok && c.Call.IsInvoke() && c.Call.Method.Name() == "onRemoteClose" {
				if n := p.callGraph().Nodes[orc]; n != nil {
					for _, e := range n.Out {
						if e.Site == c && e.Callee.Func == sor {
							okInv = true
						}
					}
				}
			}
		})
		r.ob("R14.3", "connEventHandler.onRemoteClose notifies the session (callback resolves to Session.onRemoteClose)", p.pos(orc.Pos()), okInv, true, "")
		r.ob("R14.3", "Session.onRemoteClose ends the session through exitErr", p.pos(sor.Pos()), p.must(sor, p.mCall("(*Session).exitErr"), 0), true, "")
		r.ob("R14.3", "exitErr closes the session", p.pos(ee.Pos()), p.must(ee, p.mCall("(*Session).Close"), 0), true, "")
		// write error
		okW := false
		for _, ci := range findInstrs(wed, p.mCall("(*Session).exitErr")) {
			isWErr := func(v ssa.Value) bool {
				c, ok := v.(*ssa.Call)
				return ok && c.Call.IsInvoke() && (c.Call.Method.Name() == "write" || c.Call.Method.Name() == "writev")
			}
			for _, fct := range factsAt(ci.Block()) {
				if relOn(fct.Cond, fct.Truth, isWErr, isNilConst) == "!=" {
					okW = true
				}
			}
		}
		r.ob("R14.3", "writeEventData: a write error ends the session through exitErr", p.pos(wed.Pos()), okW, true, "")
		// the handler also releases its own resources
		r.ob("R14.3", "connEventHandler.onRemoteClose releases the connection (deferredClose)", p.pos(orc.Pos()), p.must(orc, p.mCall("(*connEventHandler).deferredClose"), 0), true, "")
	}

	// R14.6 streams fail their pending calls when the session dies: every stream is woken before the teardown
	closeWakesStreams(p, r, "R14.6")
	c14Teardown(p, r, sc)
	c14NilMap(p, r)
	c14Registries(p, r, sc)
	// R14.8 teardown and failure paths never wait (or call into user code) while holding a mutex that a blocked party
	// needs in order to finish: otherwise peer death / Close is not contained — the process-wide dispatcher stalls
	// (shared with C11 R11.11)
	borrow(p, r, "C11", runC11, map[string]string{"R11.11": "R14.8", "R11.12": "R14.8", "R11.13": "R14.8"}, nil)
	c14NoAllocAfterClose(p, r)
	// R14.10 a peer that dies mid-handshake leaves no mapping, descriptor or file behind on the surviving side (shared with C12 R12.2)
	borrow(p, r, "C12", runC12, map[string]string{"R12.2": "R14.10"}, nil)
}

func describeEffect(p *P, in ssa.Instruction) string {
	switch x := in.(type) {
	case *ssa.Store:
		if w := wordOf(x.Addr); w != "" {
			return "store to " + w
		}
		return "store"
	case *ssa.Call:
		if x.Call.IsInvoke() {
			return "call " + x.Call.Method.Name()
		}
		return "call " + p.calleeName(&x.Call)
	}
	return "effect"
}

// R14.4 teardown closure + unmap routines
func c14Teardown(p *P, r *R, sc *ssa.Function) {
	var td *ssa.Function
	allInstrs(sc, func(in ssa.Instruction) {
		c, ok := in.(*ssa.Call)
		if !ok || !c.Call.IsInvoke() || c.Call.Method.Name() != "post" {
			return
		}
		for _, g := range closureArgs(c) {
			td = g
		}
		if mc, ok := c.Call.Args[0].(*ssa.MakeClosure); ok {
			td, _ = mc.Fn.(*ssa.Function)
		}
	})
	if td == nil {
		r.fail("R14.4", "Session.Close: teardown closure posted to the dispatcher", p.pos(sc.Pos()), "not found")
		return
	}
	r.Scope[p.fname(td)] = true
	nilEdge := func(field string) func(b *ssa.BasicBlock, i int) bool {
		return func(b *ssa.BasicBlock, i int) bool {
			ifi := blockIf(b)
			if ifi == nil {
				return true
			}
			isF := func(v ssa.Value) bool { return isLoadOf(v, field) }
			return relOn(ifi.Cond, i == 0, isF, isNilConst) != "=="
		}
	}
	check := func(what string, disch func(in ssa.Instruction) bool, edge func(b *ssa.BasicBlock, i int) bool) {
		res := p.mustPass(td, []Point{{td.Blocks[0], -1}}, disch, edge, nil)
		r.ob("R14.4", "teardown: "+what, p.pos(td.Pos()), res.OK, true, "%s", p.pathString(res))
	}
	check("closes the event connection", func(in ssa.Instruction) bool {
		c, ok := in.(*ssa.Call)
		return ok && c.Call.IsInvoke() && c.Call.Method.Name() == "close" && namedName(c.Call.Value.Type()) == "eventConn"
	}, nil)
	check("drops the buffer-manager reference (when one is held)", func(in ssa.Instruction) bool {
		c, ok := in.(*ssa.Call)
		if !ok || p.calleeName(&c.Call) != "addGlobalBufferManagerRefCount" {
			return false
		}
		k, okk := constInt(c.Call.Args[1])
		return okk && k == -1
	}, nilEdge("Session.bufferManager"))
	check("unmaps the queue (when one is mapped)", p.mCall("(*queueManager).unmap").F, nilEdge("Session.queueManager"))
	// streams: every table entry is closed and its callbacks awaited
	okStreams := false
	for _, ci := range findInstrs(td, p.mCall("(*Stream).Close")) {
		if e, ok := ci.(*ssa.Call).Call.Args[0].(*ssa.Extract); ok {
			if nx, ok := e.Tuple.(*ssa.Next); ok {
				if rg, ok := nx.Iter.(*ssa.Range); ok && isLoadOf(rg.X, "Session.streams") {
					okStreams = true
				}
			}
		}
	}
	r.ob("R14.4", "teardown: closes every stream of the table", p.pos(td.Pos()), okStreams, true, "streams fail their pending and later calls and get their close callbacks")
	// every stream's callback goroutine is awaited after its Close, and all of that precedes the release of the
	// shared memory: a callback still running when the mapping disappears faults the whole process
	rangeOf := func(x ssa.Value) (*ssa.Next, ssa.Value) {
		if e, ok := x.(*ssa.Extract); ok {
			if nx, ok := e.Tuple.(*ssa.Next); ok {
				if rg, ok := nx.Iter.(*ssa.Range); ok {
					return nx, rg.X
				}
			}
		}
		return nil, nil
	}
	waitOn := func(in ssa.Instruction) ssa.Value {
		c, ok := in.(*ssa.Call)
		if !ok || p.calleeName(&c.Call) != "(*sync.WaitGroup).Wait" {
			return nil
		}
		fa, okf := c.Call.Args[0].(*ssa.FieldAddr)
		if !okf || fieldKey(fa) != "Stream.asyncGoroutineWg" {
			return nil
		}
		return fa.X
	}
	var waits []ssa.Instruction
	allInstrs(td, func(in ssa.Instruction) {
		if waitOn(in) != nil {
			waits = append(waits, in)
		}
	})
	var lastLoop ssa.Instruction // the loop after which every stream is closed and awaited
	okWait := false
	for _, ci := range findInstrs(td, p.mCall("(*Stream).Close")) {
		x := ci.(*ssa.Call).Call.Args[0]
		nxC, tblC := rangeOf(x)
		if nxC == nil {
			continue
		}
		// (a) same iteration: from Close(x) the loop head is not reached again without Wait(x)
		again := p.reachesWithout(pointOf(ci), nxC, func(in ssa.Instruction) bool { return waitOn(in) == x }, nil)
		if !again {
			okWait, lastLoop = true, nxC
			continue
		}
		// (b) a later loop over the same table awaits every element unconditionally
		for _, wi := range waits {
			y := waitOn(wi)
			nxW, tblW := rangeOf(y)
			if nxW == nil || nxW == nxC || tblW != tblC {
				continue
			}
			if !instrDominates(nxC, nxW) || p.reaches(nxW, ci, nil) {
				continue
			}
			skip := p.reachesWithout(pointOf(y.(ssa.Instruction)), nxW, func(in ssa.Instruction) bool { return waitOn(in) == y }, nil)
			if !skip {
				okWait, lastLoop = true, nxW
			}
		}
	}
	r.ob("R14.4", "teardown: waits for every stream's callback goroutine after closing the stream", p.pos(td.Pos()), okWait && lastLoop != nil, true,
		"Stream.Close returns early while a callback is running; without the wait the teardown unmaps memory the callback still reads")
	if lastLoop != nil {
		okOrder := true
		allInstrs(td, func(in ssa.Instruction) {
			c, ok := in.(*ssa.Call)
			if !ok {
				return
			}
			n := p.calleeName(&c.Call)
			if n == "addGlobalBufferManagerRefCount" || n == "(*queueManager).unmap" {
				if !instrDominates(lastLoop, in) || p.reaches(in, lastLoop, nil) {
					okOrder = false
				}
			}
		})
		r.ob("R14.4", "teardown: shared memory is released only after every stream was closed and awaited", p.pos(td.Pos()), okOrder, true, "")
	}
	okTake := false
	for _, si := range findInstrs(td, mStoreWord("Session.streams")) {
		held, _ := p.heldBefore(td, p.mutexRegion("Session.streamLock"), false)
		if isNilConst(si.(*ssa.Store).Val) && held[si] {
			okTake = true
		}
	}
	r.ob("R14.4", "teardown: takes the stream table under streamLock", p.pos(td.Pos()), okTake, true, "")

	// unmap routines
	for _, un := range []string{"(*queueManager).unmap", "(*bufferManager).unmap"} {
		f := p.fn(un)
		if f == nil {
			r.fail("R14.4", "anchor "+un, "", "not found")
			continue
		}
		mun := p.mCall("golang.org/x/sys/unix.Munmap", "syscall.Munmap")
		r.ob("R14.4", un+": always unmaps the mapping", p.pos(f.Pos()), p.must(f, mun, 0), true, "")
		hasRemove := len(findInstrs(f, p.mCall("os.Remove"))) > 0
		hasClose := len(findInstrs(f, p.mCall("golang.org/x/sys/unix.Close", "syscall.Close"))) > 0
		r.ob("R14.4", un+": removes the /dev/shm file for file mappings", p.pos(f.Pos()), hasRemove, true, "")
		r.ob("R14.4", un+": closes the descriptor for memfd mappings", p.pos(f.Pos()), hasClose, true, "")
		// every mapping type is covered: for each MemMapType constant, no exit is reached without a release
		rel := func(in ssa.Instruction) bool {
			return p.mCall("os.Remove", "golang.org/x/sys/unix.Close", "syscall.Close").F(in)
		}
		isRet := func(in ssa.Instruction) bool { _, ok := in.(*ssa.Return); return ok }
		isType := func(v ssa.Value) bool {
			fa, ok := loadOfField(v)
			return ok && (fieldKey(fa) == "queueManager.mmapMapType" || fieldKey(fa) == "bufferManager.mmapMapType")
		}
		nTypes := 0
		for _, name := range p.TPkg.Scope().Names() {
			c, ok := p.TPkg.Scope().Lookup(name).(*types.Const)
			if !ok || namedName(c.Type()) != "MemMapType" {
				continue
			}
			nTypes++
			v, _ := p.pkgConstInt(name)
			bad := reachUnderF(f.Blocks[0], isRet, isType, v, rel)
			r.ob("R14.4", un+": a mapping of type "+name+" has its file removed or its descriptor closed on every exit", p.pos(f.Pos()), !bad, true, "")
		}
		r.count("R14.4", "MemMapType constants checked for "+un, nTypes, 2)
	}
	if rc := p.fn("addGlobalBufferManagerRefCount"); rc != nil {
		okLast := false
		for _, ui := range findInstrs(rc, p.mCall("(*bufferManager).unmap")) {
			for _, di := range findInstrs(rc, M{ID: "del", F: func(in ssa.Instruction) bool { _, ok := isBuiltinCall(in, "delete"); return ok }}) {
				if ui.Block() == di.Block() {
					isRef := func(v ssa.Value) bool {
						a := p.atomicOpOfValue(v)
						return a != nil && a.Op == "Add" && a.Word == "bufferManager.refCount"
					}
					isZero := func(v ssa.Value) bool { c, ok := constInt(v); return ok && c == 0 }
					for _, fct := range factsAt(ui.Block()) {
						if rel := relOn(fct.Cond, fct.Truth, isRef, isZero); rel == "<=" || rel == "==" {
							okLast = true
						}
					}
				}
			}
		}
		r.ob("R14.4", "addGlobalBufferManagerRefCount: the last reference unmaps and unregisters the buffer manager", p.pos(rc.Pos()), okLast, true, "")
	}
	// reference counting: a table hit takes exactly one reference under the table lock; a new manager starts at 1
	nHit := 0
	for _, f := range p.fnList {
		if !strings.HasPrefix(p.fname(f), "getGlobalBufferManager") {
			continue
		}
		held, _ := p.heldBefore(f, p.mutexRegion("globalBufferManager.Mutex"), false)
		for _, ai := range findInstrs(f, p.mAtomic("Add", "bufferManager.refCount")) {
			nHit++
			k, okk := constInt(ai.(*ssa.Call).Call.Args[1])
			hit := false
			for _, fct := range factsAt(ai.Block()) {
				if e, ok := fct.Cond.(*ssa.Extract); ok && fct.Truth {
					if lk, ok := e.Tuple.(*ssa.Lookup); ok && lk.CommaOk && isLoadOf(lk.X, "globalBufferManager.bms") {
						hit = true
					}
				}
			}
			r.ob("R14.4", p.fname(f)+": a table hit takes exactly one reference, under the table lock", p.ipos(ai), okk && k == 1 && hit && held[ai], true,
				"every session that uses a shared buffer manager must be counted, otherwise the first teardown unmaps memory the others still use")
		}
		// insertion under the lock
		allInstrs(f, func(in ssa.Instruction) {
			if mu, ok := in.(*ssa.MapUpdate); ok && isLoadOf(mu.Map, "globalBufferManager.bms") {
				r.ob("R14.4", p.fname(f)+": a new buffer manager is registered under the table lock", p.ipos(in), held[in], true, "")
			}
		})
	}
	r.count("R14.4", "reference increments on table hits", nHit, 2)
	for _, name := range []string{"createBufferManager", "mappingBufferManager"} {
		if f := p.fn(name); f != nil {
			ok := false
			for _, si := range findInstrs(f, mStoreWord("bufferManager.refCount")) {
				if k, okk := constInt(si.(*ssa.Store).Val); okk && k == 1 {
					ok = true
				}
			}
			r.ob("R14.4", name+": a new buffer manager starts with one reference", p.pos(f.Pos()), ok, true, "")
		}
	}
	if dc := p.fn("(*connEventHandler).deferredClose"); dc != nil {
		var body *ssa.Function
		for _, g := range dc.AnonFuncs {
			body = g
		}
		ok := body != nil &&
			len(findInstrs(body, p.mCall("epollCtl"))) > 0 &&
			len(findInstrs(body, p.mCall("(*os.File).Close"))) > 0 &&
			len(findInstrs(body, M{ID: "del", F: func(in ssa.Instruction) bool { _, ok := isBuiltinCall(in, "delete"); return ok }})) > 0
		r.ob("R14.4", "deferredClose: deregisters from epoll, drops the table entry and closes the descriptor", p.pos(dc.Pos()), ok, true, "")
	}
}

// R14.5
func c14NilMap(p *P, r *R) {
	wh := p.wireHandlers()
	fromWire := p.reachLocal(wh, nil)
	var exported []*ssa.Function
	for _, f := range p.fnList {
		if f.Parent() == nil && f.Object() != nil && f.Object().Exported() && !inFns(f, wh) {
			exported = append(exported, f)
		}
	}
	fromAPI := p.reachLocal(exported, nil)
	n := 0
	for _, f := range p.fnList {
		fn := p.fname(f)
		allInstrs(f, func(in ssa.Instruction) {
			mu, ok := in.(*ssa.MapUpdate)
			if !ok || !isLoadOf(mu.Map, "Session.streams") {
				return
			}
			n++
			held, _ := p.heldBefore(f, p.mutexRegion("Session.streamLock"), false)
			isM := func(v ssa.Value) bool { return isLoadOf(v, "Session.streams") }
			nilChecked := false
			for _, fct := range factsAt(in.Block()) {
				if relOn(fct.Cond, fct.Truth, isM, isNilConst) == "!=" {
					// the test itself must be inside the lock region
					if held[fct.If] {
						nilChecked = true
					}
				}
			}
			loopOnly := fromWire[f] && !fromAPI[f]
			r.ob("R14.5", fn+": insertion into Session.streams cannot hit the nil table left by teardown", p.ipos(in), held[in] && (nilChecked || loopOnly), true,
				"guard: nil test under streamLock=%v, event-loop-only code (same goroutine as the teardown closure, after onEventData's IsClosed test)=%v", nilChecked, loopOnly)
		})
	}
	r.count("R14.5", "insertions into Session.streams", n, 2)
	if od := p.fn("(*Session).onEventData"); od != nil {
		ok := false
		for _, ci := range findInstrs(od, p.mCall("(*Session).handleEvents")) {
			if p.guardedByCall(ci, p.mCall("(*Session).IsClosed"), false) {
				ok = true
			}
		}
		r.ob("R14.5", "onEventData: events are not handled once the session is closed", p.pos(od.Pos()), ok, true, "")
	}
}

// R14.7
func c14Registries(p *P, r *R, sc *ssa.Function) {
	type reg struct{ name, field, unregFn string }
	for _, g := range []reg{
		{"dispatcher connection table", "epollDispatcher.conns", "(*connEventHandler).deferredClose"},
		{"global buffer-manager table", "globalBufferManager.bms", "addGlobalBufferManagerRefCount"},
		{"listener session set", "sessions.data", "(*sessions).removeShutdownSession"},
	} {
		ins, del := 0, 0
		var delIn []string
		for _, f := range p.fnList {
			allInstrs(f, func(in ssa.Instruction) {
				if mu, ok := in.(*ssa.MapUpdate); ok && isLoadOf(mu.Map, g.field) {
					ins++
				}
				if c, ok := isBuiltinCall(in, "delete"); ok && isLoadOf(c.Call.Args[0], g.field) {
					del++
					name := p.fname(f)
					for h := f; h.Parent() != nil; h = h.Parent() {
						name = p.fname(h.Parent())
					}
					delIn = append(delIn, name)
				}
			})
		}
		okDel := false
		for _, d := range delIn {
			if d == g.unregFn {
				okDel = true
			}
		}
		r.ob("R14.7", g.name+": every insertion has an unregistration in "+g.unregFn, "", ins > 0 && okDel, true, "%d insert site(s), delete in %v", ins, delIn)
	}
	// the listener's OnShutdown is called on Close's CAS-success path
	okCb := false
	allInstrs(sc, func(in ssa.Instruction) {
		if c, ok := in.(*ssa.Call); ok && c.Call.IsInvoke() && c.Call.Method.Name() == "OnShutdown" {
			okCb = p.guardedByCall(in, p.mAtomic("CAS", "Session.shutdown"), true)
		}
	})
	r.ob("R14.7", "Session.Close tells the listener (OnShutdown) so that the session leaves the listener's set", p.pos(sc.Pos()), okCb, true, "")
	if cb := p.fn("(*sessionCallback).OnShutdown"); cb != nil {
		r.ob("R14.7", "sessionCallback.OnShutdown removes closed sessions from the set", p.pos(cb.Pos()), p.must(cb, p.mCall("(*sessions).removeShutdownSession"), 0), true, "")
	}
}

// c14NoAllocAfterClose (R14.9): the teardown unmaps the buffer region once every stream of the session is closed, so a
// stream's buffer may reach into the shared-memory allocator only while its stream is not closed: every call of the
// allocator (allocShmBuffer / allocShmBuffers) from a linkedBuffer method is guarded by the stream-closed test.
// ("Later calls fail ... nothing panics": a write on a stream of a closed session used to read unmapped memory.)
func c14NoAllocAfterClose(p *P, r *R) {
	guard := p.mCall("(*linkedBuffer).streamClosed")
	n := 0
	for _, f := range p.fnList {
		if recvNamed(f) != "linkedBuffer" {
			continue
		}
		for _, ci := range findInstrs(f, p.mCall("(*bufferManager).allocShmBuffer", "(*bufferManager).allocShmBuffers")) {
			n++
			// the call is reachable only over an edge on which the stream is known not to be closed (helper says so, or a
			// direct state test) or on which the buffer has no stream at all (unit tests): no path avoids all such edges
			isState := func(v ssa.Value) bool {
				c, okc := v.(*ssa.Call)
				return okc && p.calleeName(&c.Call) == "(*Stream).getStreamState"
			}
			closedV, _ := p.pkgConstInt("streamClosed")
			isClosed := func(v ssa.Value) bool { k, okk := constInt(v); return okk && k == closedV }
			isStreamFld := func(v ssa.Value) bool { return isLoadOf(v, "linkedBuffer.stream") }
			goodEdge := func(b *ssa.BasicBlock, i int) bool {
				ifi := blockIf(b)
				if ifi == nil {
					return false
				}
				if c, pol := condCall(ifi.Cond); c != nil && guard.F(c) && (i == 0) != pol {
					return true // streamClosed() == false
				}
				if relOn(ifi.Cond, i == 0, isState, isClosed) == "!=" {
					return true
				}
				if relOn(ifi.Cond, i == 0, isStreamFld, isNilConst) == "==" {
					return true
				}
				return false
			}
			ok := !p.reachesWithout(Point{f.Blocks[0], -1}, ci, nil, func(b *ssa.BasicBlock, i int) bool { return !goodEdge(b, i) })
			r.ob("R14.9", p.fname(f)+": the shared-memory allocator is entered only while the buffer's stream is not closed", p.ipos(ci), ok, true,
				"after the session's teardown the region is unmapped: an allocation for a closed stream faults the whole process")
		}
	}
	r.count("R14.9", "allocator calls from stream buffers", n, 3)
	if g := p.fn("(*linkedBuffer).streamClosed"); g != nil {
		okBody := false
		for _, ret := range returnsOf(g) {
			_ = ret
		}
		allInstrs(g, func(in ssa.Instruction) {
			if c, ok := in.(*ssa.Call); ok && p.calleeName(&c.Call) == "(*Stream).getStreamState" {
				okBody = true
			}
		})
		r.ob("R14.9", "(*linkedBuffer).streamClosed: decides by the stream's state", p.pos(g.Pos()), okBody, true, "")
	} else {
		r.fail("R14.9", "anchor (*linkedBuffer).streamClosed", "", "not found")
	}
}
