package main

import (
	"fmt"
	"go/token"
	"go/types"
	"sort"
	"strings"

	"golang.org/x/tools/go/ssa"
)

// A small abstract interpretation for index/slice/make safety (C13 R13.2/R13.3).
// Integer values are linear terms over atoms (opaque SSA values, canonicalised for pure accessors
// and len()); facts are linear inequalities read off dominating branch edges; goals are discharged
// by a depth-bounded combination search. No solver is involved.

type lin struct {
	c int64
	k map[string]int64
}

func linConst(c int64) lin { return lin{c: c, k: map[string]int64{}} }
func linAtom(a string) lin { return lin{k: map[string]int64{a: 1}} }

func (a lin) add(b lin, m int64) lin {
	r := lin{c: a.c + m*b.c, k: map[string]int64{}}
	for k, v := range a.k {
		r.k[k] = v
	}
	for k, v := range b.k {
		r.k[k] += m * v
		if r.k[k] == 0 {
			delete(r.k, k)
		}
	}
	return r
}

func (a lin) String() string {
	var ks []string
	for k := range a.k {
		ks = append(ks, k)
	}
	sort.Strings(ks)
	var sb strings.Builder
	for _, k := range ks {
		fmt.Fprintf(&sb, "%+d*%s ", a.k[k], k)
	}
	fmt.Fprintf(&sb, "%+d", a.c)
	return sb.String()
}

// bfn is the per-function analysis state.
type bfn struct {
	p      *P
	fn     *ssa.Function
	nonneg map[string]bool
	inv    []lin // loop-phi invariants, each "<= 0"
	extra  []lin // assumed preconditions of this function (each "<= 0")
	stored map[string]bool
	ba     *boundsAnalysis
}

var pureAccessors = map[string]bool{
	"(header).Length": true, "(header).Version": true, "(header).MsgType": true, "(header).Magic": true,
	"(encoding/binary.bigEndian).Uint16": true, "(encoding/binary.bigEndian).Uint32": true, "(encoding/binary.bigEndian).Uint64": true,
}

func isUnsigned(t types.Type) bool {
	b, ok := t.Underlying().(*types.Basic)
	return ok && b.Info()&types.IsUnsigned != 0
}

func isInteger(t types.Type) bool {
	b, ok := t.Underlying().(*types.Basic)
	return ok && b.Info()&types.IsInteger != 0
}

// skey: canonical key of a slice/string/array-valued SSA value.
func (c *bfn) skey(v ssa.Value) string {
	switch x := v.(type) {
	case *ssa.Parameter:
		return "P:" + x.Name()
	case *ssa.ChangeType:
		return c.skey(x.X)
	case *ssa.UnOp:
		if x.Op == token.MUL {
			if g, ok := x.X.(*ssa.Global); ok {
				return "G:" + g.Name()
			}
			if pth, ok := c.fieldPath(x); ok {
				return "F:" + pth
			}
		}
	}
	return "V#" + v.Name()
}

// fieldPath: v is a load through a chain of field selections rooted at a parameter, and the function
// never stores to the last field of the chain: two such loads denote the same value.
func (c *bfn) fieldPath(v ssa.Value) (string, bool) {
	switch x := v.(type) {
	case *ssa.Parameter:
		return x.Name(), true
	case *ssa.UnOp:
		if x.Op != token.MUL {
			return "", false
		}
		fa, ok := x.X.(*ssa.FieldAddr)
		if !ok {
			return "", false
		}
		base, ok := c.fieldPath(fa.X)
		if !ok {
			return "", false
		}
		key := fieldKey(fa)
		if c.stored == nil {
			c.stored = map[string]bool{}
			allInstrs(c.fn, func(in ssa.Instruction) {
				if st, ok := in.(*ssa.Store); ok {
					if k := fieldKey(st.Addr); k != "" {
						c.stored[k] = true
					}
				}
			})
		}
		if c.stored[key] {
			return "", false
		}
		return base + "." + key, true
	}
	return "", false
}

func (c *bfn) atom(key string, nonneg bool) lin {
	if nonneg {
		c.nonneg[key] = true
	}
	return linAtom(key)
}

// term: linear term of an integer value; ok=false means "unknown / may wrap".
func (c *bfn) term(v ssa.Value) (lin, bool) {
	if v == nil {
		return lin{}, false
	}
	if k, ok := constInt(v); ok {
		if _, isC := stripConv(v).(*ssa.Const); isC {
			return linConst(k), true
		}
	}
	switch x := v.(type) {
	case *ssa.Convert:
		if !isInteger(x.Type()) || !isInteger(x.X.Type()) {
			break
		}
		t, ok := c.term(x.X)
		if !ok {
			break
		}
		// widening or same-size conversions of values we track keep the value (64-bit int assumed);
		// a signed -> unsigned conversion of a possibly negative value does not.
		if isUnsigned(x.Type()) && !isUnsigned(x.X.Type()) {
			if !c.prove(t.add(linConst(0), 0).neg(), x.Block()) { // need 0 <= t
				break
			}
		}
		return t, true
	case *ssa.ChangeType:
		return c.term(x.X)
	case *ssa.BinOp:
		if !isInteger(x.Type()) {
			break
		}
		a, oka := c.term(x.X)
		b, okb := c.term(x.Y)
		switch x.Op {
		case token.ADD:
			if oka && okb {
				return a.add(b, 1), true
			}
		case token.SUB:
			if oka && okb {
				d := a.add(b, -1)
				if isUnsigned(x.Type()) {
					// unsigned subtraction: only a term if b <= a is known here
					if !c.prove(d.neg(), x.Block()) {
						return lin{}, false
					}
				}
				return d, true
			}
		case token.MUL:
			if oka && okb {
				if len(a.k) == 0 {
					return linConst(0).add(b, a.c), true
				}
				if len(b.k) == 0 {
					return linConst(0).add(a, b.c), true
				}
			}
		case token.AND:
			if k, ok := constInt(x.Y); ok && k >= 0 {
				return c.atom("V#"+x.Name(), true), true
			}
		}
	case *ssa.Call:
		if b, ok := x.Call.Value.(*ssa.Builtin); ok {
			switch b.Name() {
			case "len", "cap":
				return c.lenTerm(x.Call.Args[0])
			}
		}
		name := c.p.calleeName(&x.Call)
		if libNonNeg[name] {
			return c.atom("V#"+x.Name(), true), true
		}
		if pureAccessors[name] && len(x.Call.Args) >= 1 {
			arg := x.Call.Args[len(x.Call.Args)-1]
			return c.atom("C:"+name+"("+c.skey(arg)+")", isUnsigned(x.Type())), true
		}
		if mn := c.ba.minShaped[name]; mn && len(x.Call.Args) == 2 {
			// result <= each argument, and result equals one of them: model as fresh atom with facts
			key := "V#" + x.Name()
			r := linAtom(key)
			for _, a := range x.Call.Args {
				if t, ok := c.term(a); ok {
					c.inv = appendUnique(c.inv, r.add(t, -1)) // r - a <= 0
				}
			}
			// result >= 0 if both args are
			nn := true
			for _, a := range x.Call.Args {
				t, ok := c.term(a)
				if !ok || !c.prove(t.neg(), x.Block()) {
					nn = false
				}
			}
			if nn {
				c.nonneg[key] = true
			}
			return r, true
		}
	}
	if isInteger(v.Type()) {
		return c.atom("V#"+v.Name(), isUnsigned(v.Type())), true
	}
	return lin{}, false
}

func appendUnique(l []lin, x lin) []lin {
	s := x.String()
	for _, y := range l {
		if y.String() == s {
			return l
		}
	}
	return append(l, x)
}

func (a lin) neg() lin { return linConst(0).add(a, -1) }

// lenTerm: length of a slice / string / array value.
func (c *bfn) lenTerm(v ssa.Value) (lin, bool) {
	switch x := v.(type) {
	case *ssa.ChangeType:
		return c.lenTerm(x.X)
	case *ssa.MakeSlice:
		return c.term(x.Len)
	case *ssa.Slice:
		var lo lin = linConst(0)
		if x.Low != nil {
			t, ok := c.term(x.Low)
			if !ok {
				return lin{}, false
			}
			lo = t
		}
		if x.High != nil {
			hi, ok := c.term(x.High)
			if !ok {
				return lin{}, false
			}
			return hi.add(lo, -1), true
		}
		base, ok := c.baseLen(x.X)
		if !ok {
			return lin{}, false
		}
		return base.add(lo, -1), true
	case *ssa.Call:
		// append(a, b...) : len = len(a) + len(b)
		if b, ok := x.Call.Value.(*ssa.Builtin); ok && b.Name() == "append" && len(x.Call.Args) == 2 {
			la, oka := c.lenTerm(x.Call.Args[0])
			lb, okb := c.lenTerm(x.Call.Args[1])
			if oka && okb {
				return la.add(lb, 1), true
			}
		}
	case *ssa.Const:
		if x.Value != nil && x.Value.Kind().String() == "String" {
			return linConst(int64(len(x.Value.ExactString()) - 2)), true
		}
	}
	if at, ok := derefType(v.Type()).Underlying().(*types.Array); ok {
		return linConst(at.Len()), true
	}
	key := "len(" + c.skey(v) + ")"
	hs := c.ba.headerSize()
	switch x := v.(type) {
	case *ssa.Call:
		// in-package callee whose every return hands back a slice of at least headerSize bytes
		if g := c.p.localCallee(x); g != nil && x.Call.Signature().Results().Len() == 1 && c.ba.retLenAtLeast(g, 0, hs) {
			c.inv = appendUnique(c.inv, linConst(hs).add(linAtom(key), -1))
		}
	}
	if namedName(v.Type()) == "header" {
		switch v.(type) {
		case *ssa.Parameter, *ssa.UnOp, *ssa.Extract, *ssa.Phi, *ssa.Call, *ssa.FreeVar:
			// type invariant of `header`: a non-nil header spans at least headerSize bytes; it is established
			// (proved) at every conversion of a byte slice to header inside the wire scope (see convHeader).
			c.inv = appendUnique(c.inv, linConst(hs).add(linAtom(key), -1))
		}
	}
	return c.atom(key, true), true
}

// retLenAtLeast: every return of g yields (as its i-th result) a slice with len >= n.
func (ba *boundsAnalysis) retLenAtLeast(g *ssa.Function, i int, n int64) bool {
	k := ba.p.fname(g)
	if v, ok := ba.retLen[k]; ok {
		return v
	}
	if ba.retLen == nil {
		ba.retLen = map[string]bool{}
	}
	ba.retLen[k] = false // cycles
	c := ba.ctxOf(g)
	okAll := len(returnsOf(g)) > 0
	for _, ret := range returnsOf(g) {
		v := resultOf(ret, i)
		if v == nil || isNilConst(v) {
			if ret.Results != nil && len(ret.Results) > 1 {
				continue // (nil, err) style return
			}
			okAll = false
			continue
		}
		t, ok := c.lenTerm(v)
		if !ok || !c.prove(linConst(n).add(t, -1), ret.Block()) {
			okAll = false
		}
	}
	ba.retLen[k] = okAll
	return okAll
}

// baseLen: length of the operand of a slice/index expression (pointer to array, slice, string).
func (c *bfn) baseLen(v ssa.Value) (lin, bool) {
	if pt, ok := v.Type().Underlying().(*types.Pointer); ok {
		if at, ok := pt.Elem().Underlying().(*types.Array); ok {
			return linConst(at.Len()), true
		}
	}
	return c.lenTerm(v)
}

// factsFor: inequalities (each "<= 0") known at block b.
func (c *bfn) factsFor(b *ssa.BasicBlock) []lin {
	var out []lin
	for _, f := range factsAt(b) {
		out = append(out, c.factOf(f.Cond, f.Truth)...)
		out = append(out, c.ioAxiom(f)...)
	}
	out = append(out, c.inv...)
	out = append(out, c.extra...)
	return out
}

func (c *bfn) factOf(cond ssa.Value, truth bool) []lin {
	cv, neg := stripNot(cond)
	if neg {
		truth = !truth
	}
	b, ok := cv.(*ssa.BinOp)
	if !ok || !isInteger(b.X.Type()) {
		return nil
	}
	// avoid recursion through prove() while computing operand terms of the fact itself
	x, okx := c.termNoProve(b.X)
	y, oky := c.termNoProve(b.Y)
	if !okx || !oky {
		return nil
	}
	d := x.add(y, -1) // x - y
	op := b.Op
	if !truth {
		switch op {
		case token.LSS:
			op = token.GEQ
		case token.LEQ:
			op = token.GTR
		case token.GTR:
			op = token.LEQ
		case token.GEQ:
			op = token.LSS
		case token.EQL:
			op = token.NEQ
		case token.NEQ:
			op = token.EQL
		}
	}
	switch op {
	case token.LSS: // x - y < 0  => x - y + 1 <= 0
		return []lin{d.add(linConst(1), 1)}
	case token.LEQ:
		return []lin{d}
	case token.GTR: // y - x + 1 <= 0
		return []lin{d.neg().add(linConst(1), 1)}
	case token.GEQ:
		return []lin{d.neg()}
	case token.EQL:
		return []lin{d, d.neg()}
	case token.NEQ:
		// atom != 0 with atom >= 0  =>  atom >= 1
		if len(d.k) == 1 && d.c == 0 {
			for k, v := range d.k {
				if c.nonneg[k] && v == 1 {
					return []lin{linConst(1).add(linAtom(k), -1)}
				}
				if c.nonneg[k] && v == -1 {
					return []lin{linConst(1).add(linAtom(k), -1)}
				}
			}
		}
	}
	return nil
}

// ioAxiom: on the edge where the error result of a read/write style call is nil, its count result is >= 0.
func (c *bfn) ioAxiom(f Fact) []lin {
	isErr := func(v ssa.Value) bool {
		e, ok := v.(*ssa.Extract)
		if !ok {
			return false
		}
		call, ok := e.Tuple.(*ssa.Call)
		return ok && ioCalls[c.p.calleeName(&call.Call)] && e.Index == call.Call.Signature().Results().Len()-1
	}
	if relOn(f.Cond, f.Truth, isErr, isNilConst) != "==" {
		return nil
	}
	var out []lin
	cv, _ := stripNot(f.Cond)
	b := cv.(*ssa.BinOp)
	for _, side := range []ssa.Value{b.X, b.Y} {
		e, ok := side.(*ssa.Extract)
		if !ok {
			continue
		}
		if refs := e.Tuple.Referrers(); refs != nil {
			for _, ref := range *refs {
				if e0, ok := ref.(*ssa.Extract); ok && isInteger(e0.Type()) {
					out = append(out, linAtom("V#"+e0.Name()).neg())
				}
			}
		}
	}
	return out
}

var ioCalls = map[string]bool{
	"golang.org/x/sys/unix.Read": true, "golang.org/x/sys/unix.Write": true, "golang.org/x/sys/unix.Recvmsg": true,
	"syscall.Read": true, "syscall.Write": true, "blockReadOutOfBoundForFd": true,
}

var libNonNeg = map[string]bool{"golang.org/x/sys/unix.CmsgSpace": true, "golang.org/x/sys/unix.CmsgLen": true}

var noProve = false

func (c *bfn) termNoProve(v ssa.Value) (lin, bool) {
	old := noProve
	noProve = true
	defer func() { noProve = old }()
	return c.term(v)
}

// prove goal <= 0 at block b.
func (c *bfn) prove(goal lin, b *ssa.BasicBlock) bool {
	if noProve {
		// inside fact construction: only constant goals can be decided
		return len(goal.k) == 0 && goal.c <= 0
	}
	facts := c.factsFor(b)
	return c.search(goal, facts, 4)
}

func (c *bfn) search(goal lin, facts []lin, depth int) bool {
	if len(goal.k) == 0 {
		return goal.c <= 0
	}
	// drop negative multiples of non-negative atoms (goal <= goal')
	g2 := goal
	dropped := false
	for k, v := range goal.k {
		if v < 0 && c.nonneg[k] {
			if !dropped {
				g2 = goal.add(linConst(0), 0)
				dropped = true
			}
			delete(g2.k, k)
		}
	}
	if dropped && len(g2.k) == 0 && g2.c <= 0 {
		return true
	}
	if depth == 0 {
		return false
	}
	for _, f := range facts {
		shares := false
		for k, v := range f.k {
			if gv, ok := goal.k[k]; ok && (gv > 0) == (v > 0) {
				shares = true
			}
		}
		if !shares {
			continue
		}
		for _, m := range []int64{1, 2} {
			ng := goal.add(f, -m)
			if len(ng.k) <= len(goal.k) {
				if c.search(ng, facts, depth-1) {
					return true
				}
			}
		}
	}
	if dropped {
		return c.search(g2, facts, depth-1)
	}
	return false
}

// ---------------------------------------------------------------------------------------------

type boundOb struct {
	fn     *ssa.Function
	in     ssa.Instruction
	what   string
	goal   lin
	proven bool
	// parameters known to be non-nil at the site (the obligation is vacuous for a caller passing nil)
	nonNilParams []int
	// parameter-only goals of an unproven obligation can become a precondition
	paramOnly bool
}

type boundsAnalysis struct {
	p         *P
	scope     []*ssa.Function
	inScope   map[*ssa.Function]bool
	minShaped map[string]bool
	requires  map[*ssa.Function][]lin // goals over "len(P:x)" / "V#param" atoms that callers must establish
	obs       []boundOb
	ctx       map[*ssa.Function]*bfn
	handlers  []*ssa.Function
	notes     []string
	retLen    map[string]bool
	reqNonNil map[string][]int
}

func (ba *boundsAnalysis) ctxOf(f *ssa.Function) *bfn {
	if c, ok := ba.ctx[f]; ok {
		return c
	}
	c := &bfn{p: ba.p, fn: f, nonneg: map[string]bool{}, ba: ba}
	ba.ctx[f] = c
	return c
}

// detectMinShaped: func(a, b T) T { if a < b { return a }; return b }
func detectMinShaped(p *P) map[string]bool {
	out := map[string]bool{}
	for _, f := range p.fnList {
		if len(f.Params) != 2 || f.Signature.Results().Len() != 1 || len(f.Blocks) != 3 {
			continue
		}
		ifi := blockIf(f.Blocks[0])
		if ifi == nil {
			continue
		}
		b, ok := ifi.Cond.(*ssa.BinOp)
		if !ok || b.X != ssa.Value(f.Params[0]) || b.Y != ssa.Value(f.Params[1]) {
			continue
		}
		rt, ok1 := f.Blocks[0].Succs[0].Instrs[0].(*ssa.Return)
		rf, ok2 := f.Blocks[0].Succs[1].Instrs[0].(*ssa.Return)
		if !ok1 || !ok2 {
			continue
		}
		// a<b ? a : b   or  a<=b ? a : b  or a>b ? b : a
		switch b.Op {
		case token.LSS, token.LEQ:
			if rt.Results[0] == ssa.Value(f.Params[0]) && rf.Results[0] == ssa.Value(f.Params[1]) {
				out[p.fname(f)] = true
			}
		case token.GTR, token.GEQ:
			if rt.Results[0] == ssa.Value(f.Params[1]) && rf.Results[0] == ssa.Value(f.Params[0]) {
				out[p.fname(f)] = true
			}
		}
	}
	return out
}

var libRequires = map[string]int64{
	"(encoding/binary.bigEndian).Uint16": 2, "(encoding/binary.bigEndian).Uint32": 4, "(encoding/binary.bigEndian).Uint64": 8,
	"(encoding/binary.bigEndian).PutUint16": 2, "(encoding/binary.bigEndian).PutUint32": 4, "(encoding/binary.bigEndian).PutUint64": 8,
}

func paramOnlyLin(f *ssa.Function, g lin) bool {
	for k := range g.k {
		ok := false
		for _, prm := range f.Params {
			if k == "len(P:"+prm.Name()+")" || k == "V#"+prm.Name() {
				ok = true
			}
		}
		if !ok {
			return false
		}
	}
	return true
}

// substitute a callee precondition (over the callee's parameter atoms) with the call's arguments.
func (ba *boundsAnalysis) substitute(c *bfn, callee *ssa.Function, g lin, args []ssa.Value) (lin, bool) {
	res := linConst(g.c)
	for k, coef := range g.k {
		found := false
		for i, prm := range callee.Params {
			if i >= len(args) {
				break
			}
			if k == "len(P:"+prm.Name()+")" {
				t, ok := c.lenTerm(args[i])
				if !ok {
					return lin{}, false
				}
				res = res.add(t, coef)
				found = true
			} else if k == "V#"+prm.Name() {
				t, ok := c.term(args[i])
				if !ok {
					return lin{}, false
				}
				res = res.add(t, coef)
				found = true
			}
		}
		if !found {
			return lin{}, false
		}
	}
	return res, true
}

// analyse runs the obligations of one function; returns the list.
func (ba *boundsAnalysis) analyse(f *ssa.Function) []boundOb {
	c := ba.ctxOf(f)
	var obs []boundOb
	need := func(in ssa.Instruction, what string, goal lin, ok bool) {
		o := boundOb{fn: f, in: in, what: what, goal: goal}
		if ok {
			o.proven = c.prove(goal, in.Block())
			o.paramOnly = paramOnlyLin(f, goal)
			for pi, prm := range f.Params {
				if knownNonNilAt(prm, in.Block()) {
					o.nonNilParams = append(o.nonNilParams, pi)
				}
			}
		}
		obs = append(obs, o)
	}
	vacuous := func(g *ssa.Function, rq lin, args []ssa.Value) bool {
		for _, pi := range ba.reqNonNil[ba.p.fname(g)+"|"+rq.String()] {
			if pi < len(args) && isNilConst(args[pi]) {
				return true
			}
		}
		return false
	}
	allInstrs(f, func(in ssa.Instruction) {
		switch x := in.(type) {
		case *ssa.MakeSlice:
			t, ok := c.term(x.Len)
			need(in, "make: length >= 0 (and not a wrapped unsigned difference)", t.neg(), ok)
		case *ssa.Slice:
			base, okb := c.baseLen(x.X)
			lo, oklo := linConst(0), true
			if x.Low != nil {
				lo, oklo = c.term(x.Low)
				need(in, "slice: 0 <= low", lo.neg(), oklo)
			}
			if x.High != nil {
				hi, okh := c.term(x.High)
				need(in, "slice: low <= high", lo.add(hi, -1), oklo && okh)
				need(in, "slice: high <= len(base)", hi.add(base, -1), okh && okb)
			} else {
				need(in, "slice: low <= len(base)", lo.add(base, -1), oklo && okb)
			}
		case *ssa.IndexAddr:
			base, okb := c.baseLen(x.X)
			i, oki := c.term(x.Index)
			need(in, "index: 0 <= i", i.neg(), oki)
			need(in, "index: i < len(base)", i.add(base, -1).add(linConst(1), 1), oki && okb)
		case *ssa.Index:
			base, okb := c.baseLen(x.X)
			i, oki := c.term(x.Index)
			need(in, "index: 0 <= i", i.neg(), oki)
			need(in, "index: i < len(base)", i.add(base, -1).add(linConst(1), 1), oki && okb)
		case *ssa.ChangeType:
			if namedName(x.Type()) == "header" && namedName(x.X.Type()) != "header" {
				if isNilConst(x.X) {
					break
				}
				t, okt := c.lenTerm(x.X)
				need(in, "conversion to header: len >= headerSize (type invariant of header)", linConst(ba.headerSize()).add(t, -1), okt)
			}
		case *ssa.Call:
			name := ba.p.calleeName(&x.Call)
			if n, ok := libRequires[name]; ok {
				arg := x.Call.Args[len(x.Call.Args)-1]
				if strings.Contains(name, "Put") {
					arg = x.Call.Args[len(x.Call.Args)-2]
				}
				t, okt := c.lenTerm(arg)
				need(in, fmt.Sprintf("%s needs len >= %d", name, n), linConst(n).add(t, -1), okt)
			}
			if g := ba.p.localCallee(x); g != nil && ba.inScope[g] {
				for _, rq := range ba.requires[g] {
					if vacuous(g, rq, x.Call.Args) {
						continue
					}
					goal, ok := ba.substitute(c, g, rq, x.Call.Args)
					need(in, "call "+ba.p.fname(g)+" precondition ["+rq.String()+" <= 0]", goal, ok)
				}
			}
			// indirect call through the handler table: every handler's preconditions
			if x.Call.StaticCallee() == nil && !x.Call.IsInvoke() && len(x.Call.Args) == 3 {
				for _, h := range ba.handlers {
					if types.Identical(h.Signature, x.Call.Signature()) {
						for _, rq := range ba.requires[h] {
							goal, ok := ba.substitute(c, h, rq, x.Call.Args)
							need(in, "table call "+ba.p.fname(h)+" precondition ["+rq.String()+" <= 0]", goal, ok)
						}
					}
				}
			}
		}
	})
	return obs
}

// addHandlerPost: the result n of a table call satisfies 0 <= n <= headerSize + len(buf argument).
func (ba *boundsAnalysis) addHandlerPost(c *bfn, hs int64) {
	allInstrs(c.fn, func(in ssa.Instruction) {
		ex, ok := in.(*ssa.Extract)
		if !ok || ex.Index != 0 {
			return
		}
		call, ok := ex.Tuple.(*ssa.Call)
		if !ok || call.Call.StaticCallee() != nil || call.Call.IsInvoke() || len(call.Call.Args) != 3 {
			return
		}
		match := false
		for _, h := range ba.handlers {
			if types.Identical(h.Signature, call.Call.Signature()) {
				match = true
			}
		}
		if !match {
			return
		}
		key := "V#" + ex.Name()
		c.nonneg[key] = true
		if bl, ok := c.lenTerm(call.Call.Args[2]); ok {
			// n - hs - len(buf) <= 0
			c.inv = appendUnique(c.inv, linAtom(key).add(bl, -1).add(linConst(hs), -1))
		}
	})
}

// houdini: candidate invariants for integer loop phis: phi >= 0 and phi <= len(p) for each []byte
// parameter p; keeps those that hold on every incoming edge assuming all current candidates.
func (ba *boundsAnalysis) houdini(c *bfn) {
	type cand struct {
		phi  *ssa.Phi
		goal lin // <= 0 form over the phi atom
		mk   func(t lin) lin
	}
	var cands []cand
	for _, b := range c.fn.Blocks {
		for _, in := range b.Instrs {
			ph, ok := in.(*ssa.Phi)
			if !ok || !isInteger(ph.Type()) {
				continue
			}
			cands = append(cands, cand{ph, linAtom("V#" + ph.Name()).neg(), func(t lin) lin { return t.neg() }})
			for _, prm := range c.fn.Params {
				if isByteSlice(prm.Type()) {
					l := linAtom("len(P:" + prm.Name() + ")")
					c.nonneg["len(P:"+prm.Name()+")"] = true
					lc := l
					cands = append(cands, cand{ph, linAtom("V#"+ph.Name()).add(lc, -1), func(t lin) lin { return t.add(lc, -1) }})
				}
			}
		}
	}
	for changed := true; changed; {
		changed = false
		c.inv = c.inv[:0:0]
		ba.addHandlerPost(c, ba.headerSize())
		for _, cd := range cands {
			c.inv = append(c.inv, cd.goal)
		}
		for i, cd := range cands {
			ok := true
			for ei, e := range cd.phi.Edges {
				t, okt := c.term(e)
				if !okt || !c.prove(cd.mk(t), cd.phi.Block().Preds[ei]) {
					// facts of the predecessor block end; also use the edge condition into the phi block
					okEdge := false
					if okt {
						pred := cd.phi.Block().Preds[ei]
						facts := c.factsFor(pred)
						if ifi := blockIf(pred); ifi != nil {
							for si, s := range pred.Succs {
								if s == cd.phi.Block() {
									facts = append(facts, c.factOf(ifi.Cond, si == 0)...)
								}
							}
						}
						okEdge = c.search(cd.mk(t), facts, 4)
					}
					if !okEdge {
						ok = false
					}
				}
			}
			if !ok {
				cands = append(cands[:i], cands[i+1:]...)
				changed = true
				break
			}
		}
	}
	c.inv = c.inv[:0:0]
	ba.addHandlerPost(c, ba.headerSize())
	for _, cd := range cands {
		c.inv = append(c.inv, cd.goal)
	}
}

func (ba *boundsAnalysis) headerSize() int64 {
	v, _ := ba.p.pkgConstInt("headerSize")
	return v
}

// run: iterate precondition inference to a fixpoint, then return final obligations.
func (ba *boundsAnalysis) run() {
	ba.minShaped = detectMinShaped(ba.p)
	ba.requires = map[*ssa.Function][]lin{}
	ba.reqNonNil = map[string][]int{}
	ba.ctx = map[*ssa.Function]*bfn{}
	for _, f := range ba.scope {
		ba.houdini(ba.ctxOf(f))
	}
	for iter := 0; iter < 6; iter++ {
		changed := false
		ba.obs = nil
		for _, f := range ba.scope {
			c := ba.ctxOf(f)
			c.extra = ba.requires[f]
			ba.houdini(c)
			for _, o := range ba.analyse(f) {
				if !o.proven && o.paramOnly && len(o.goal.k) > 0 {
					// becomes a precondition of f (callers must establish it)
					before := len(ba.requires[f])
					ba.requires[f] = appendUnique(ba.requires[f], o.goal)
					ba.reqNonNil[ba.p.fname(f)+"|"+o.goal.String()] = o.nonNilParams
					if len(ba.requires[f]) != before {
						changed = true
					}
					continue
				}
				ba.obs = append(ba.obs, o)
			}
		}
		if !changed {
			break
		}
	}
}
