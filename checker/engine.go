package main

import (
	"fmt"
	"go/constant"
	"go/token"
	"go/types"
	"sort"
	"strings"

	"golang.org/x/tools/go/ssa"
)

// ---------------------------------------------------------------------------------------------
// naming of memory words (access paths)

func derefType(t types.Type) types.Type {
	if pt, ok := t.Underlying().(*types.Pointer); ok {
		return pt.Elem()
	}
	return t
}

func namedName(t types.Type) string {
	t = derefType(t)
	if n, ok := t.(*types.Named); ok {
		return n.Obj().Name()
	}
	return ""
}

// fieldKey returns "T.f" for a FieldAddr / Field instruction, "" otherwise.
func fieldKey(v ssa.Value) string {
	switch x := v.(type) {
	case *ssa.FieldAddr:
		st, ok := derefType(x.X.Type()).Underlying().(*types.Struct)
		if !ok {
			return ""
		}
		return namedName(x.X.Type()) + "." + st.Field(x.Field).Name()
	case *ssa.Field:
		st, ok := x.X.Type().Underlying().(*types.Struct)
		if !ok {
			return ""
		}
		return namedName(x.X.Type()) + "." + st.Field(x.Field).Name()
	}
	return ""
}

func stripConv(v ssa.Value) ssa.Value {
	for {
		switch x := v.(type) {
		case *ssa.Convert:
			v = x.X
		case *ssa.ChangeType:
			v = x.X
		default:
			return v
		}
	}
}

// wordOf names the memory word an address value designates:
//
//	&x.f            -> "T.f"       (the field itself)
//	x.f (pointer)   -> "*T.f"      (the word the pointer field points to)
//
// unsafe.Pointer round trips are looked through. "" if the address is something else.
func wordOf(addr ssa.Value) string {
	addr = stripConv(addr)
	switch x := addr.(type) {
	case *ssa.FieldAddr:
		return fieldKey(x)
	case *ssa.UnOp:
		if x.Op == token.MUL {
			if fa, ok := stripConv(x.X).(*ssa.FieldAddr); ok {
				return "*" + fieldKey(fa)
			}
		}
	case *ssa.Field:
		return "*" + fieldKey(x)
	}
	return ""
}

// loadOfField: v is a load (UnOp *) of FieldAddr with key; returns the FieldAddr.
func loadOfField(v ssa.Value) (*ssa.FieldAddr, bool) {
	if u, ok := stripConv(v).(*ssa.UnOp); ok && u.Op == token.MUL {
		if fa, ok := stripConv(u.X).(*ssa.FieldAddr); ok {
			return fa, true
		}
	}
	return nil, false
}

// isLoadOf reports whether v is a (converted) load of field key "T.f".
func isLoadOf(v ssa.Value, key string) bool {
	fa, ok := loadOfField(v)
	return ok && fieldKey(fa) == key
}

// ---------------------------------------------------------------------------------------------
// calls

func callCommon(in ssa.Instruction) *ssa.CallCommon {
	switch x := in.(type) {
	case *ssa.Call:
		return &x.Call
	case *ssa.Defer:
		return &x.Call
	case *ssa.Go:
		return &x.Call
	}
	return nil
}

// calleeFullName returns e.g. "sync/atomic.AddInt32", "(*sync.Mutex).Lock", or for package-local
// functions the package-relative name; for interface invokes "invoke:Method".
func (p *P) calleeName(cc *ssa.CallCommon) string {
	if cc == nil {
		return ""
	}
	if cc.IsInvoke() {
		return "invoke:" + cc.Method.Name()
	}
	if f := cc.StaticCallee(); f != nil {
		if f.Pkg == p.Pkg {
			return p.fname(f)
		}
		return f.String()
	}
	if b, ok := cc.Value.(*ssa.Builtin); ok {
		return "builtin:" + b.Name()
	}
	return ""
}

func (p *P) localCallee(in ssa.Instruction) *ssa.Function {
	cc := callCommon(in)
	if cc == nil || cc.IsInvoke() {
		return nil
	}
	f := cc.StaticCallee()
	if f == nil || f.Pkg != p.Pkg || f.Blocks == nil {
		return nil
	}
	return f
}

// closuresIn returns functions of MakeClosure / function-valued arguments passed by instr.
func closureArgs(in ssa.Instruction) []*ssa.Function {
	cc := callCommon(in)
	if cc == nil {
		return nil
	}
	var out []*ssa.Function
	vals := append([]ssa.Value{}, cc.Args...)
	if !cc.IsInvoke() {
		vals = append(vals, cc.Value)
	}
	for _, a := range vals {
		switch x := a.(type) {
		case *ssa.MakeClosure:
			if f, ok := x.Fn.(*ssa.Function); ok {
				out = append(out, f)
			}
		case *ssa.Function:
			if x.Blocks != nil && x.Parent() != nil {
				out = append(out, x)
			}
		}
	}
	return out
}

type atomicInfo struct {
	Op   string // CAS, Add, Load, Store, Swap
	Word string
	Call *ssa.CallCommon
}

func (p *P) atomicOp(in ssa.Instruction) *atomicInfo {
	cc := callCommon(in)
	if cc == nil || cc.IsInvoke() {
		return nil
	}
	f := cc.StaticCallee()
	if f == nil || f.Pkg == nil || f.Pkg.Pkg.Path() != "sync/atomic" || len(cc.Args) == 0 {
		return nil
	}
	n := f.Name()
	op := ""
	switch {
	case strings.HasPrefix(n, "CompareAndSwap"):
		op = "CAS"
	case strings.HasPrefix(n, "Add"):
		op = "Add"
	case strings.HasPrefix(n, "Load"):
		op = "Load"
	case strings.HasPrefix(n, "Store"):
		op = "Store"
	case strings.HasPrefix(n, "Swap"):
		op = "Swap"
	default:
		return nil
	}
	return &atomicInfo{Op: op, Word: wordOf(cc.Args[0]), Call: cc}
}

func constInt(v ssa.Value) (int64, bool) {
	v = stripConv(v)
	if b, ok := v.(*ssa.BinOp); ok {
		// go/ssa does not fold `0 + 2`
		x, okx := constInt(b.X)
		y, oky := constInt(b.Y)
		if okx && oky {
			switch b.Op {
			case token.ADD:
				return x + y, true
			case token.SUB:
				return x - y, true
			case token.MUL:
				return x * y, true
			case token.OR:
				return x | y, true
			case token.AND:
				return x & y, true
			case token.SHL:
				if y >= 0 && y < 63 {
					return x << uint(y), true
				}
			}
		}
		return 0, false
	}
	if c, ok := v.(*ssa.Const); ok && c.Value != nil {
		if c.Value.Kind() == constant.Int {
			i, ok := constant.Int64Val(c.Value)
			if ok {
				return i, true
			}
			u, ok := constant.Uint64Val(c.Value)
			return int64(u), ok
		}
	}
	return 0, false
}

func isNilConst(v ssa.Value) bool {
	c, ok := v.(*ssa.Const)
	return ok && c.Value == nil
}

// ---------------------------------------------------------------------------------------------
// matchers and virtual inlining

// M is a named predicate over instructions.
type M struct {
	ID string
	F  func(in ssa.Instruction) bool
}

func (p *P) mCall(names ...string) M {
	set := map[string]bool{}
	for _, n := range names {
		set[n] = true
	}
	return M{ID: "call:" + strings.Join(names, ","), F: func(in ssa.Instruction) bool {
		cc := callCommon(in)
		if cc == nil {
			return false
		}
		switch in.(type) {
		case *ssa.Go, *ssa.Defer:
			return false // not executed here: use mCallD when a deferred call is an acceptable discharge
		}
		return set[p.calleeName(cc)]
	}}
}

// mCallD is mCall that also accepts `defer f()` (the call then runs at every exit after this point):
// suitable as a discharge event of must-pass-through queries, not for ordering.
func (p *P) mCallD(names ...string) M {
	set := map[string]bool{}
	for _, n := range names {
		set[n] = true
	}
	return M{ID: "callD:" + strings.Join(names, ","), F: func(in ssa.Instruction) bool {
		cc := callCommon(in)
		if cc == nil {
			return false
		}
		if _, isGo := in.(*ssa.Go); isGo {
			return false
		}
		return set[p.calleeName(cc)]
	}}
}

func (p *P) mAtomic(op, word string) M {
	return M{ID: "atomic:" + op + ":" + word, F: func(in ssa.Instruction) bool {
		if _, isCall := in.(*ssa.Call); !isCall {
			return false
		}
		a := p.atomicOp(in)
		return a != nil && a.Op == op && a.Word == word
	}}
}

func mStoreWord(word string) M {
	return M{ID: "store:" + word, F: func(in ssa.Instruction) bool {
		s, ok := in.(*ssa.Store)
		return ok && wordOf(s.Addr) == word
	}}
}

func mOr(ms ...M) M {
	ids := make([]string, len(ms))
	for i, m := range ms {
		ids[i] = m.ID
	}
	return M{ID: "or(" + strings.Join(ids, "|") + ")", F: func(in ssa.Instruction) bool {
		for _, m := range ms {
			if m.F(in) {
				return true
			}
		}
		return false
	}}
}

const inlineDepth = 3

// may reports whether fn contains (directly, or through package-local static callees up to depth)
// an instruction matching m.
func (p *P) may(fn *ssa.Function, m M, depth int) bool {
	if fn == nil || fn.Blocks == nil {
		return false
	}
	key := fmt.Sprintf("may|%s|%s|%d", p.fname(fn), m.ID, depth)
	if v, ok := p.sumMemo[key]; ok {
		return v
	}
	if p.sumBusy[key] {
		return false
	}
	p.sumBusy[key] = true
	res := false
	for _, b := range fn.Blocks {
		for _, in := range b.Instrs {
			if p.evMay(in, m, depth) {
				res = true
			}
		}
	}
	delete(p.sumBusy, key)
	p.sumMemo[key] = res
	return res
}

// evMay: the instruction is the event, or is a (non-go) call of a local function that may perform it.
func (p *P) evMay(in ssa.Instruction, m M, depth int) bool {
	if m.F(in) {
		return true
	}
	if depth <= 0 {
		return false
	}
	if _, isGo := in.(*ssa.Go); isGo {
		return false
	}
	if g := p.localCallee(in); g != nil && p.may(g, m, depth-1) {
		return true
	}
	return false
}

// must reports whether every path from fn's entry to a return passes an event matching m
// (directly or through callees that themselves must).
func (p *P) must(fn *ssa.Function, m M, depth int) bool {
	if fn == nil || fn.Blocks == nil {
		return false
	}
	key := fmt.Sprintf("must|%s|%s|%d", p.fname(fn), m.ID, depth)
	if v, ok := p.sumMemo[key]; ok {
		return v
	}
	if p.sumBusy[key] {
		return false
	}
	p.sumBusy[key] = true
	r := p.mustPass(fn, []Point{{fn.Blocks[0], -1}}, func(in ssa.Instruction) bool { return p.evMust(in, m, depth) }, nil, nil)
	delete(p.sumBusy, key)
	p.sumMemo[key] = r.OK
	return r.OK
}

func (p *P) evMust(in ssa.Instruction, m M, depth int) bool {
	if m.F(in) {
		return true
	}
	if depth <= 0 {
		return false
	}
	if _, isGo := in.(*ssa.Go); isGo {
		return false
	}
	if g := p.localCallee(in); g != nil && p.must(g, m, depth-1) {
		return true
	}
	return false
}

// ---------------------------------------------------------------------------------------------
// CFG utilities

// Point is a position in a function: the instruction Idx of Block (Idx -1 = before the first).
type Point struct {
	B   *ssa.BasicBlock
	Idx int
}

func pointOf(in ssa.Instruction) Point {
	b := in.Block()
	for i, x := range b.Instrs {
		if x == in {
			return Point{b, i}
		}
	}
	return Point{b, -1}
}

// instrDominates: a executes before b on every path reaching b (same function).
func instrDominates(a, b ssa.Instruction) bool {
	pa, pb := pointOf(a), pointOf(b)
	if pa.B == pb.B {
		return pa.Idx < pb.Idx
	}
	return pa.B.Dominates(pb.B)
}

// PathRes is the outcome of a must-pass-through query.
type PathRes struct {
	OK   bool
	Exit ssa.Instruction
	Path []*ssa.BasicBlock
}

func (p *P) pathString(r PathRes) string {
	if r.OK {
		return ""
	}
	var parts []string
	for _, b := range r.Path {
		parts = append(parts, fmt.Sprintf("b%d", b.Index))
	}
	return fmt.Sprintf("exit at %s via %s", p.ipos(r.Exit), strings.Join(parts, ">"))
}

// mustPass checks that every CFG path that starts right after one of starts and reaches an exit
// (a Return accepted by exitOK; all returns if nil) passes an instruction for which discharge holds.
// edgeOK(b, i) == false prunes the i-th successor edge of b. Panics are not exits.
func (p *P) mustPass(fn *ssa.Function, starts []Point, discharge func(ssa.Instruction) bool,
	edgeOK func(b *ssa.BasicBlock, succ int) bool, exitOK func(ret *ssa.Return, pred *ssa.BasicBlock) bool) PathRes {
	type key struct {
		b    *ssa.BasicBlock
		pred *ssa.BasicBlock
	}
	seen := map[key]bool{}
	var path []*ssa.BasicBlock
	var res PathRes
	res.OK = true
	var walk func(b *ssa.BasicBlock, from int, pred *ssa.BasicBlock) bool
	walk = func(b *ssa.BasicBlock, from int, pred *ssa.BasicBlock) bool {
		path = append(path, b)
		defer func() { path = path[:len(path)-1] }()
		for i := from; i < len(b.Instrs); i++ {
			in := b.Instrs[i]
			if discharge(in) {
				return true
			}
			if ret, ok := in.(*ssa.Return); ok {
				if exitOK == nil || exitOK(ret, pred) {
					res = PathRes{OK: false, Exit: ret, Path: append([]*ssa.BasicBlock{}, path...)}
					return false
				}
				return true
			}
		}
		for i, s := range b.Succs {
			if edgeOK != nil && !edgeOK(b, i) {
				continue
			}
			k := key{s, nil}
			if exitOK != nil {
				k.pred = b
			}
			if seen[k] {
				continue
			}
			seen[k] = true
			if !walk(s, 0, b) {
				return false
			}
		}
		return true
	}
	for _, st := range starts {
		if !walk(st.B, st.Idx+1, nil) {
			return res
		}
	}
	return res
}

// reachesWithout reports whether there is a path from right after `from` to instruction `to` that
// passes no instruction satisfying block.
func (p *P) reachesWithout(from Point, to ssa.Instruction, block func(ssa.Instruction) bool, edgeOK func(b *ssa.BasicBlock, succ int) bool) bool {
	seen := map[*ssa.BasicBlock]bool{}
	var walk func(b *ssa.BasicBlock, start int) bool
	walk = func(b *ssa.BasicBlock, start int) bool {
		for i := start; i < len(b.Instrs); i++ {
			in := b.Instrs[i]
			if in == to {
				return true
			}
			if block != nil && block(in) {
				return false
			}
		}
		for i, s := range b.Succs {
			if edgeOK != nil && !edgeOK(b, i) {
				continue
			}
			if seen[s] {
				continue
			}
			seen[s] = true
			if walk(s, 0) {
				return true
			}
		}
		return false
	}
	return walk(from.B, from.Idx+1)
}

// Fact is a branch condition known to hold at a program point.
type Fact struct {
	Cond  ssa.Value
	Truth bool
	If    *ssa.If
}

// factsAt returns the branch conditions that dominate block b (conditions of dominating Ifs whose
// taken edge is the unique way into the dominator-tree path to b).
func factsAt(b *ssa.BasicBlock) []Fact {
	var out []Fact
	for cur := b; cur != nil; cur = cur.Idom() {
		d := cur.Idom()
		if d == nil {
			break
		}
		ifi, ok := d.Instrs[len(d.Instrs)-1].(*ssa.If)
		if !ok || len(cur.Preds) != 1 || cur.Preds[0] != d {
			continue
		}
		if d.Succs[0] == d.Succs[1] {
			continue
		}
		if d.Succs[0] == cur {
			out = append(out, Fact{ifi.Cond, true, ifi})
		} else if d.Succs[1] == cur {
			out = append(out, Fact{ifi.Cond, false, ifi})
		}
	}
	return out
}

// blockIf returns the If terminating b, if any.
func blockIf(b *ssa.BasicBlock) *ssa.If {
	if len(b.Instrs) == 0 {
		return nil
	}
	i, _ := b.Instrs[len(b.Instrs)-1].(*ssa.If)
	return i
}

// negations: returns the underlying condition and whether it was negated an odd number of times.
func stripNot(v ssa.Value) (ssa.Value, bool) {
	neg := false
	for {
		u, ok := v.(*ssa.UnOp)
		if !ok || u.Op != token.NOT {
			return v, neg
		}
		v = u.X
		neg = !neg
	}
}

// condIsCall: cond (possibly negated) is the result of a call matching m. Returns the call and the
// truth value of the call result that makes `cond` true.
func condCall(cond ssa.Value) (*ssa.Call, bool) {
	c, neg := stripNot(cond)
	if call, ok := c.(*ssa.Call); ok {
		return call, !neg
	}
	return nil, false
}

// guardedByCall: instruction `in` is dominated by the edge on which call matching m returned want.
func (p *P) guardedByCall(in ssa.Instruction, m M, want bool) bool {
	for _, f := range factsAt(in.Block()) {
		call, pol := condCall(f.Cond)
		if call == nil {
			continue
		}
		if m.F(call) && (f.Truth == pol) == want {
			return true
		}
	}
	return false
}

// allInstrs iterates over the instructions of fn.
func allInstrs(fn *ssa.Function, f func(in ssa.Instruction)) {
	for _, b := range fn.Blocks {
		for _, in := range b.Instrs {
			f(in)
		}
	}
}

func findInstrs(fn *ssa.Function, m M) []ssa.Instruction {
	var out []ssa.Instruction
	if fn == nil {
		return nil
	}
	allInstrs(fn, func(in ssa.Instruction) {
		if m.F(in) {
			out = append(out, in)
		}
	})
	return out
}

// sitesMay returns instructions of fn that are the event or call something that may do it.
func (p *P) sitesMay(fn *ssa.Function, m M, depth int) []ssa.Instruction {
	var out []ssa.Instruction
	if fn == nil {
		return nil
	}
	allInstrs(fn, func(in ssa.Instruction) {
		if p.evMay(in, m, depth) {
			out = append(out, in)
		}
	})
	return out
}

// functionsWhere lists package functions containing a direct match.
func (p *P) functionsWhere(m M) []*ssa.Function {
	var out []*ssa.Function
	for _, f := range p.fnList {
		if len(findInstrs(f, m)) > 0 {
			out = append(out, f)
		}
	}
	return out
}

func (p *P) names(fs []*ssa.Function) []string {
	var out []string
	for _, f := range fs {
		out = append(out, p.fname(f))
	}
	sort.Strings(out)
	return out
}

// returnsOf lists the Return instructions of fn.
func returnsOf(fn *ssa.Function) []*ssa.Return {
	var out []*ssa.Return
	for _, b := range fn.Blocks {
		if len(b.Instrs) == 0 {
			continue
		}
		if r, ok := b.Instrs[len(b.Instrs)-1].(*ssa.Return); ok {
			out = append(out, r)
		}
	}
	return out
}

// mayBeNonNil: can value v (as seen when control arrives from pred, for phis in the same block as
// the use) be something other than the nil constant?
func mayBeNonNil(v ssa.Value, useBlock, pred *ssa.BasicBlock) bool {
	switch x := v.(type) {
	case *ssa.Const:
		return x.Value != nil
	case *ssa.Phi:
		if pred != nil && x.Block() == useBlock {
			for i, pb := range useBlock.Preds {
				if pb == pred {
					return mayBeNonNil(x.Edges[i], nil, nil)
				}
			}
		}
		for _, e := range x.Edges {
			if e == v {
				continue
			}
			if _, isPhi := e.(*ssa.Phi); isPhi {
				return true
			}
			if mayBeNonNil(e, nil, nil) {
				return true
			}
		}
		return false
	case *ssa.MakeInterface:
		return true
	case *ssa.Extract:
		// result of a local function all of whose exits return the nil constant at that position
		if c, ok := x.Tuple.(*ssa.Call); ok {
			if g := c.Call.StaticCallee(); g != nil && g.Blocks != nil {
				for _, ret := range returnsOf(g) {
					if g.Recover != nil && ret.Block() == g.Recover {
						continue
					}
					if !isNilConst(resultOf(ret, x.Index)) {
						return true
					}
				}
				return false
			}
		}
	}
	return true
}

// mustBeNonNilResult is a conservative test that the value is definitely a non-nil thing:
// allocation, call result of constructor-like function is NOT assumed; only non-nil constants and
// MakeInterface / Alloc / address values.
func definitelyNonNil(v ssa.Value) bool {
	switch x := v.(type) {
	case *ssa.Const:
		return x.Value != nil
	case *ssa.MakeInterface, *ssa.Alloc, *ssa.FieldAddr, *ssa.IndexAddr, *ssa.MakeClosure, *ssa.MakeChan, *ssa.MakeMap, *ssa.MakeSlice:
		return true
	case *ssa.UnOp:
		// load of a package-level error variable (ErrXxx)
		if x.Op == token.MUL {
			if g, ok := x.X.(*ssa.Global); ok && strings.HasPrefix(strings.ToLower(g.Name()), "err") {
				return true
			}
		}
	case *ssa.Call:
		if f := x.Call.StaticCallee(); f != nil {
			s := f.String()
			if s == "fmt.Errorf" || s == "errors.New" {
				return true
			}
		}
	}
	return false
}

// usesValue reports whether instruction in has v among its operands (looking through conversions).
func usesValue(in ssa.Instruction, v ssa.Value) bool {
	for _, op := range in.Operands(nil) {
		if *op == nil {
			continue
		}
		if *op == v || stripConv(*op) == v {
			return true
		}
	}
	return false
}

// derivedFrom: is v computed from root through arithmetic / conversions / slicing / indexing /
// phis (bounded depth)?
func derivedFrom(v ssa.Value, root func(ssa.Value) bool, depth int) bool {
	if v == nil || depth < 0 {
		return false
	}
	if root(v) {
		return true
	}
	switch x := v.(type) {
	case *ssa.Convert:
		return derivedFrom(x.X, root, depth-1)
	case *ssa.ChangeType:
		return derivedFrom(x.X, root, depth-1)
	case *ssa.BinOp:
		return derivedFrom(x.X, root, depth-1) || derivedFrom(x.Y, root, depth-1)
	case *ssa.UnOp:
		return derivedFrom(x.X, root, depth-1)
	case *ssa.Slice:
		return derivedFrom(x.X, root, depth-1) || derivedFrom(x.Low, root, depth-1) || derivedFrom(x.High, root, depth-1)
	case *ssa.IndexAddr:
		return derivedFrom(x.X, root, depth-1) || derivedFrom(x.Index, root, depth-1)
	case *ssa.FieldAddr:
		return derivedFrom(x.X, root, depth-1)
	case *ssa.Phi:
		for _, e := range x.Edges {
			if e != v && derivedFrom(e, root, depth-1) {
				return true
			}
		}
	case *ssa.Extract:
		return derivedFrom(x.Tuple, root, depth-1)
	}
	return false
}

// ---------------------------------------------------------------------------------------------
// REGION: must-held dataflow for a lock or CAS flag

// Region describes acquire/release events of one lock instance inside a function.
type Region struct {
	Acquire func(in ssa.Instruction) bool
	Release func(in ssa.Instruction) bool
	// EdgeAcquire: the lock is acquired when control takes the i-th successor edge of b
	// (true edge of `if CAS(&flag,0,1)`).
	EdgeAcquire func(b *ssa.BasicBlock, succ int) bool
}

// heldBefore computes, for every instruction of fn, whether the lock is definitely held just
// before it (must analysis: intersection over predecessors). entryHeld is the state at entry.
// It also returns whether a deferred release is registered (then the lock is released at exits).
func (p *P) heldBefore(fn *ssa.Function, rg Region, entryHeld bool) (map[ssa.Instruction]bool, map[*ssa.BasicBlock]bool) {
	in := map[*ssa.BasicBlock]bool{}
	out := map[*ssa.BasicBlock]bool{}
	for _, b := range fn.Blocks {
		in[b], out[b] = true, true // optimistic start for a must-analysis
	}
	in[fn.Blocks[0]] = entryHeld
	transfer := func(b *ssa.BasicBlock, st bool) bool {
		for _, i := range b.Instrs {
			if _, isDefer := i.(*ssa.Defer); isDefer {
				continue
			}
			if rg.Acquire != nil && rg.Acquire(i) {
				st = true
			}
			if rg.Release != nil && rg.Release(i) {
				st = false
			}
		}
		return st
	}
	changed := true
	for iter := 0; changed && iter < 100; iter++ {
		changed = false
		for _, b := range fn.Blocks {
			st := in[b]
			if b != fn.Blocks[0] {
				st = true
				if len(b.Preds) == 0 {
					st = false
				}
				for _, pb := range b.Preds {
					e := out[pb]
					if rg.EdgeAcquire != nil {
						for si, s := range pb.Succs {
							if s == b && rg.EdgeAcquire(pb, si) {
								e = true
							}
						}
					}
					st = st && e
				}
			}
			o := transfer(b, st)
			if st != in[b] || o != out[b] {
				in[b], out[b] = st, o
				changed = true
			}
		}
	}
	held := map[ssa.Instruction]bool{}
	for _, b := range fn.Blocks {
		st := in[b]
		for _, i := range b.Instrs {
			held[i] = st
			if _, isDefer := i.(*ssa.Defer); isDefer {
				continue
			}
			if rg.Acquire != nil && rg.Acquire(i) {
				st = true
			}
			if rg.Release != nil && rg.Release(i) {
				st = false
			}
		}
	}
	return held, out
}

// mayHeldBefore is the dual (union over predecessors): could the lock be held here?
func (p *P) mayHeldBefore(fn *ssa.Function, rg Region) map[ssa.Instruction]bool {
	in := map[*ssa.BasicBlock]bool{}
	out := map[*ssa.BasicBlock]bool{}
	step := func(i ssa.Instruction, st bool) bool {
		if _, isDefer := i.(*ssa.Defer); isDefer {
			return st
		}
		if rg.Acquire != nil && rg.Acquire(i) {
			st = true
		}
		if rg.Release != nil && rg.Release(i) {
			st = false
		}
		return st
	}
	changed := true
	for iter := 0; changed && iter < 100; iter++ {
		changed = false
		for _, b := range fn.Blocks {
			st := false
			for _, pb := range b.Preds {
				e := out[pb]
				if rg.EdgeAcquire != nil {
					for si, s := range pb.Succs {
						if s == b && rg.EdgeAcquire(pb, si) {
							e = true
						}
					}
				}
				st = st || e
			}
			o := st
			for _, i := range b.Instrs {
				o = step(i, o)
			}
			if st != in[b] || o != out[b] {
				in[b], out[b] = st, o
				changed = true
			}
		}
	}
	held := map[ssa.Instruction]bool{}
	for _, b := range fn.Blocks {
		st := in[b]
		for _, i := range b.Instrs {
			held[i] = st
			st = step(i, st)
		}
	}
	return held
}

// mutexRegion builds a Region for sync.Mutex/RWMutex methods on the word (e.g. "queue.Mutex"). Small wrappers count
// too: a local function all of whose paths return with the mutex held (it locks and never unlocks) is an acquire,
// one that unlocks on every path and never locks is a release (`func (s *Session) lockStreams() { s.streamLock.Lock() }`).
func (p *P) mutexRegion(word string) Region {
	if p.regionMemo == nil {
		p.regionMemo = map[string]Region{}
	}
	if rg, ok := p.regionMemo[word]; ok {
		return rg
	}
	is := func(in ssa.Instruction, names ...string) bool {
		cc := callCommon(in)
		if cc == nil || len(cc.Args) == 0 {
			return false
		}
		n := p.calleeName(cc)
		for _, nm := range names {
			if n == nm && wordOf(cc.Args[0]) == word {
				return true
			}
		}
		return false
	}
	acq := func(in ssa.Instruction) bool {
		return is(in, "(*sync.Mutex).Lock", "(*sync.RWMutex).Lock", "(*sync.RWMutex).RLock")
	}
	rel := func(in ssa.Instruction) bool {
		return is(in, "(*sync.Mutex).Unlock", "(*sync.RWMutex).Unlock", "(*sync.RWMutex).RUnlock")
	}
	lockers, unlockers := map[*ssa.Function]bool{}, map[*ssa.Function]bool{}
	for _, g := range p.fnList {
		if g.Parent() != nil || len(g.Blocks) > 3 {
			continue // wrappers are tiny, straight-line functions
		}
		nA, nR, other := 0, 0, 0
		allInstrs(g, func(in ssa.Instruction) {
			switch {
			case acq(in):
				if _, isD := in.(*ssa.Defer); !isD {
					nA++
				} else {
					other++
				}
			case rel(in):
				if _, isD := in.(*ssa.Defer); !isD {
					nR++
				} else {
					other++
				}
			}
		})
		if len(g.Blocks) == 1 && other == 0 {
			if nA == 1 && nR == 0 {
				lockers[g] = true
			}
			if nR == 1 && nA == 0 {
				unlockers[g] = true
			}
		}
	}
	rg := Region{
		Acquire: func(in ssa.Instruction) bool {
			if acq(in) {
				return true
			}
			if len(lockers) > 0 {
				if g := p.localCallee(in); g != nil && lockers[g] {
					return true
				}
			}
			return false
		},
		Release: func(in ssa.Instruction) bool {
			if rel(in) {
				return true
			}
			if len(unlockers) > 0 {
				if g := p.localCallee(in); g != nil && unlockers[g] {
					return true
				}
			}
			return false
		},
	}
	p.regionMemo[word] = rg
	return rg
}

// deferredRelease: fn registers `defer <release>`.
func (p *P) deferredRelease(fn *ssa.Function, rg Region) bool {
	found := false
	allInstrs(fn, func(in ssa.Instruction) {
		if d, ok := in.(*ssa.Defer); ok && rg.Release(d) {
			found = true
		}
	})
	return found
}

// relOn normalises a comparison fact: if cond (with the given truth) compares a value satisfying isX
// with a value satisfying isY, it returns the relation "X rel Y" that is known to hold ("<", "<=",
// ">", ">=", "==", "!="), else "".
func relOn(cond ssa.Value, truth bool, isX, isY func(ssa.Value) bool) string {
	c, neg := stripNot(cond)
	if neg {
		truth = !truth
	}
	b, ok := c.(*ssa.BinOp)
	if !ok {
		return ""
	}
	op := ""
	switch b.Op {
	case token.LSS:
		op = "<"
	case token.LEQ:
		op = "<="
	case token.GTR:
		op = ">"
	case token.GEQ:
		op = ">="
	case token.EQL:
		op = "=="
	case token.NEQ:
		op = "!="
	default:
		return ""
	}
	flip := map[string]string{"<": ">", "<=": ">=", ">": "<", ">=": "<=", "==": "==", "!=": "!="}
	negate := map[string]string{"<": ">=", "<=": ">", ">": "<=", ">=": "<", "==": "!=", "!=": "=="}
	switch {
	case isX(b.X) && isY(b.Y):
	case isX(b.Y) && isY(b.X):
		op = flip[op]
	default:
		return ""
	}
	if !truth {
		op = negate[op]
	}
	return op
}

// resultOf returns the i-th returned value of ret, looking through the defer-induced spill
// (`*t0 = v; rundefers; t = *t0; return t`).
func resultOf(ret *ssa.Return, i int) ssa.Value {
	if i >= len(ret.Results) {
		return nil
	}
	v := ret.Results[i]
	u, ok := v.(*ssa.UnOp)
	if !ok || u.Op != token.MUL {
		return v
	}
	al, ok := u.X.(*ssa.Alloc)
	if !ok {
		return v
	}
	b := ret.Block()
	var last ssa.Value
	for _, in := range b.Instrs {
		if in == ssa.Instruction(u) {
			break
		}
		if st, ok := in.(*ssa.Store); ok && st.Addr == al {
			last = st.Val
		}
	}
	if last != nil {
		return last
	}
	return v
}

// retCase is one way of reaching an exit with a distinct result value: results merged by a phi (single-exit style
// `err = X ... return err`) are judged per incoming edge, at the end of the predecessor block of that edge.
type retCase struct {
	V  ssa.Value
	At *ssa.BasicBlock
}

func returnCases(ret *ssa.Return, i int) []retCase {
	v := resultOf(ret, i)
	var out []retCase
	var expand func(v ssa.Value, at *ssa.BasicBlock, depth int)
	expand = func(v ssa.Value, at *ssa.BasicBlock, depth int) {
		if ph, ok := v.(*ssa.Phi); ok && depth > 0 {
			for k, e := range ph.Edges {
				expand(e, ph.Block().Preds[k], depth-1)
			}
			return
		}
		out = append(out, retCase{v, at})
	}
	expand(v, ret.Block(), 3)
	return out
}

func lastResult(ret *ssa.Return) ssa.Value {
	if len(ret.Results) == 0 {
		return nil
	}
	return resultOf(ret, len(ret.Results)-1)
}

// knownNonNilAt: v is definitely non-nil at block b (constant, constructor, or a dominating v != nil fact).
func knownNonNilAt(v ssa.Value, b *ssa.BasicBlock) bool {
	if v == nil {
		return false
	}
	if definitelyNonNil(v) {
		return true
	}
	isV := func(x ssa.Value) bool { return x == v }
	for _, f := range factsAt(b) {
		if relOn(f.Cond, f.Truth, isV, isNilConst) == "!=" {
			return true
		}
	}
	return false
}

// isErrorExit: the return hands back an error that is known to be non-nil.
func isErrorExit(ret *ssa.Return) bool {
	v := lastResult(ret)
	if v == nil {
		return false
	}
	if _, ok := v.Type().Underlying().(*types.Interface); !ok {
		return false
	}
	return knownNonNilAt(v, ret.Block())
}

// edgeKnownNonNil: taking the i-th successor of b establishes v != nil.
func edgeKnownNonNil(b *ssa.BasicBlock, i int, v ssa.Value) bool {
	ifi := blockIf(b)
	if ifi == nil {
		return false
	}
	isV := func(x ssa.Value) bool { return x == v }
	return relOn(ifi.Cond, i == 0, isV, isNilConst) == "!="
}

// ---------------------------------------------------------------------------------------------
// path-sensitive search (small functions only): carries the outcome of branch conditions along the
// path and refuses edges that contradict an earlier outcome of the same (structurally equal) test.

type pathOpts struct {
	Discharge func(in ssa.Instruction) bool       // path is fine once it passes such an instruction
	Bad       func(in ssa.Instruction) bool       // reaching such an instruction undischarged is a violation (default: any Return)
	EdgeOK    func(b *ssa.BasicBlock, i int) bool // false prunes the edge (e.g. "nothing to dispose on this edge")
	BadReturn func(ret *ssa.Return, pred *ssa.BasicBlock) bool
	// StartFacts: the search starts with the branch outcomes that dominate the start point (so that a path cannot
	// contradict the tests under which the start instruction executes)
	StartFacts bool
}

func condKey(v ssa.Value) (string, bool) {
	c, neg := stripNot(v)
	switch x := c.(type) {
	case *ssa.BinOp:
		kx, ky := valKey(x.X), valKey(x.Y)
		if kx == "" || ky == "" {
			return "", false
		}
		// normalise != to == with flipped polarity
		switch x.Op {
		case token.EQL:
			return kx + "==" + ky, neg
		case token.NEQ:
			return kx + "==" + ky, !neg
		}
		return kx + x.Op.String() + ky, neg
	}
	k := valKey(c)
	return k, neg
}

func valKey(v ssa.Value) string {
	switch x := v.(type) {
	case *ssa.Const:
		return "const:" + x.String()
	case nil:
		return ""
	}
	return v.Name() + "@" + fmt.Sprintf("%p", v)
}

// findBadPath returns a path (as blocks) from a start point to a Bad instruction that passes no
// Discharge instruction and is consistent in its branch outcomes, or nil.
func (p *P) findBadPath(fn *ssa.Function, starts []Point, o pathOpts) (bool, PathRes) {
	type state struct {
		b   *ssa.BasicBlock
		env string
	}
	seen := map[state]bool{}
	var path []*ssa.BasicBlock
	var res PathRes
	res.OK = true
	envStr := func(env map[string]bool) string {
		var ks []string
		for k, v := range env {
			ks = append(ks, fmt.Sprintf("%s=%v", k, v))
		}
		sort.Strings(ks)
		return strings.Join(ks, ";")
	}
	var walk func(b *ssa.BasicBlock, from int, pred *ssa.BasicBlock, env map[string]bool) bool
	walk = func(b *ssa.BasicBlock, from int, pred *ssa.BasicBlock, env map[string]bool) bool {
		path = append(path, b)
		defer func() { path = path[:len(path)-1] }()
		for i := from; i < len(b.Instrs); i++ {
			in := b.Instrs[i]
			if o.Discharge != nil && o.Discharge(in) {
				return true
			}
			isBad := false
			if ret, ok := in.(*ssa.Return); ok {
				if o.Bad == nil && (o.BadReturn == nil || o.BadReturn(ret, pred)) {
					isBad = true
				} else if o.Bad != nil && o.Bad(in) {
					isBad = true
				} else {
					return true
				}
			} else if o.Bad != nil && o.Bad(in) {
				isBad = true
			}
			if isBad {
				res = PathRes{OK: false, Exit: in, Path: append([]*ssa.BasicBlock{}, path...)}
				return false
			}
		}
		ifi := blockIf(b)
		for i, s := range b.Succs {
			if o.EdgeOK != nil && !o.EdgeOK(b, i) {
				continue
			}
			nenv := env
			if ifi != nil && len(b.Succs) == 2 {
				if k, neg := condKey(ifi.Cond); k != "" {
					truth := (i == 0) != neg
					if old, ok := env[k]; ok && old != truth {
						continue // contradicts an earlier outcome of the same test
					}
					nenv = map[string]bool{}
					for kk, vv := range env {
						nenv[kk] = vv
					}
					nenv[k] = truth
				}
			}
			st := state{s, envStr(nenv)}
			if seen[st] {
				continue
			}
			seen[st] = true
			if !walk(s, 0, b, nenv) {
				return false
			}
		}
		return true
	}
	for _, st := range starts {
		env := map[string]bool{}
		if o.StartFacts {
			for _, fct := range factsAt(st.B) {
				if k, neg := condKey(fct.Cond); k != "" {
					env[k] = fct.Truth != neg
				}
			}
		}
		if !walk(st.B, st.Idx+1, nil, env) {
			return false, res
		}
	}
	return true, res
}

// ---------------------------------------------------------------------------------------------
// wrappers ("virtual inlining" of value provenance)

// putFamily returns the queue producer functions plus local wrappers around them: functions that
// call a member of the family and hand its error result back to their caller (possibly after a
// retry loop). A refactoring that moves the enqueue into such a helper keeps every rule that talks
// about "the enqueue" working: calls of a wrapper are enqueue sites of the caller.
func (p *P) putFamily() (family []*ssa.Function, wrappers []*ssa.Function) {
	prod, _ := p.queueRoles()
	family = append(family, prod...)
	for iter := 0; iter < 2; iter++ {
		var names []string
		for _, f := range family {
			names = append(names, p.fname(f))
		}
		m := p.mCall(names...)
		for _, g := range p.fnList {
			if inFns(g, family) {
				continue
			}
			calls := findInstrs(g, m)
			if len(calls) == 0 {
				continue
			}
			isRes := func(v ssa.Value) bool {
				for _, c := range calls {
					if v == ssa.Value(c.(*ssa.Call)) {
						return true
					}
				}
				return false
			}
			wraps := false
			for _, ret := range returnsOf(g) {
				if v := lastResult(ret); v != nil && derivedFrom(v, isRes, 4) {
					if _, isIface := v.Type().Underlying().(*types.Interface); isIface {
						wraps = true
					}
				}
			}
			// an exported entry point has callers outside the package: it can never delegate the wake-up
			exported := g.Parent() == nil && g.Object() != nil && g.Object().Exported()
			if wraps && !exported && !p.wakesAfterEnqueue(g, calls) {
				family = append(family, g)
				wrappers = append(wrappers, g)
			}
		}
	}
	return
}

func (p *P) mPutFamily() M {
	fam, _ := p.putFamily()
	var names []string
	for _, f := range fam {
		names = append(names, p.fname(f))
	}
	return p.mCall(names...)
}

// family returns root plus the package-local functions it (transitively, depth<=2) calls that have
// the same receiver type and are called from nowhere else: helpers split off from root.
func (p *P) family(root *ssa.Function) []*ssa.Function {
	out := []*ssa.Function{root}
	if root == nil {
		return nil
	}
	for depth := 0; depth < 2; depth++ {
		for _, f := range append([]*ssa.Function{}, out...) {
			allInstrs(f, func(in ssa.Instruction) {
				g := p.localCallee(in)
				if g == nil || inFns(g, out) || recvNamed(g) != recvNamed(root) || g.Parent() != nil {
					return
				}
				// all callers inside the family
				only := true
				for _, h := range p.fnList {
					if inFns(h, out) || h == g {
						continue
					}
					if len(findInstrs(h, p.mCallD(p.fname(g)))) > 0 {
						only = false
					}
				}
				if only {
					out = append(out, g)
				}
			})
		}
	}
	return out
}

// argsFor resolves a value that is a parameter of f to the corresponding arguments at f's static
// call sites in the package (one level); other values are returned unchanged.
func (p *P) argsFor(v ssa.Value, f *ssa.Function) []ssa.Value {
	prm, ok := v.(*ssa.Parameter)
	if !ok {
		return []ssa.Value{v}
	}
	idx := -1
	for i, q := range f.Params {
		if q == prm {
			idx = i
		}
	}
	if idx < 0 {
		return []ssa.Value{v}
	}
	var out []ssa.Value
	for _, g := range p.fnList {
		for _, ci := range findInstrs(g, p.mCall(p.fname(f))) {
			c := ci.(*ssa.Call)
			if idx < len(c.Call.Args) {
				out = append(out, c.Call.Args[idx])
			}
		}
	}
	if len(out) == 0 {
		return []ssa.Value{v}
	}
	return out
}

// wakesAfterEnqueue: on every success path after each of the given enqueue calls, g reaches the
// wake-up routine itself (then g is a complete sender, not a wrapper whose caller must wake).
func (p *P) wakesAfterEnqueue(g *ssa.Function, calls []ssa.Instruction) bool {
	w := p.wakeRoles()
	var names []string
	for _, f := range w.wake {
		names = append(names, p.fname(f))
	}
	mWake := p.mCall(names...)
	for _, ci := range calls {
		call := ci.(*ssa.Call)
		res := p.mustPass(g, []Point{pointOf(call)},
			func(in ssa.Instruction) bool { return p.evMust(in, mWake, 1) },
			func(b *ssa.BasicBlock, i int) bool { return !edgeKnownNonNil(b, i, call) },
			func(ret *ssa.Return, pred *ssa.BasicBlock) bool { return !isErrorExit(ret) })
		if !res.OK {
			return false
		}
	}
	return true
}

// elementFieldStores: the struct passed by value as argument argIdx of a call (`put(queueElement{...})` or `put(elem)`)
// is a load of a local; returns the stores to its field named `field` (by fieldKey) that reach the call, i.e. dominate it.
func elementFieldStores(call ssa.Instruction, argIdx int, key string) []*ssa.Store {
	cc := callCommon(call)
	if cc == nil || argIdx >= len(cc.Args) {
		return nil
	}
	ld, ok := cc.Args[argIdx].(*ssa.UnOp)
	if !ok || ld.Op != token.MUL {
		return nil
	}
	al, ok := ld.X.(*ssa.Alloc)
	if !ok {
		return nil
	}
	var out []*ssa.Store
	for _, ref := range *al.Referrers() {
		fa, ok := ref.(*ssa.FieldAddr)
		if !ok || fieldKey(fa) != key {
			continue
		}
		for _, r2 := range *fa.Referrers() {
			if st, ok := r2.(*ssa.Store); ok && st.Addr == ssa.Value(fa) && instrDominates(st, call) {
				out = append(out, st)
			}
		}
	}
	return out
}

// wireFamily: the wire handlers plus local helpers that are called from nowhere else (per-element / per-event helpers
// split off a handler), two levels deep.
func (p *P) wireFamily() []*ssa.Function {
	out := append([]*ssa.Function{}, p.wireHandlers()...)
	for depth := 0; depth < 2; depth++ {
		for _, f := range append([]*ssa.Function{}, out...) {
			allInstrs(f, func(in ssa.Instruction) {
				g := p.localCallee(in)
				if g == nil || inFns(g, out) || g.Parent() != nil {
					return
				}
				only := true
				for _, h := range p.fnList {
					if inFns(h, out) || h == g {
						continue
					}
					if len(findInstrs(h, p.mCallD(p.fname(g)))) > 0 {
						only = false
					}
				}
				if only {
					out = append(out, g)
				}
			})
		}
	}
	return out
}

// symLin writes an integer value as a linear combination of opaque atoms: constants, +, -, multiplication by a
// constant and integer conversions are interpreted; everything else is an atom. Loads of the same named word
// (`*b.capPerBuffer` evaluated twice) are the same atom — callers use it inside one function, between no stores.
func symLin(v ssa.Value, depth int) lin {
	v = stripConv(v)
	if v == nil {
		return linConst(0)
	}
	if c, ok := constInt(v); ok {
		return linConst(c)
	}
	if depth > 0 {
		if b, ok := v.(*ssa.BinOp); ok {
			switch b.Op {
			case token.ADD:
				return symLin(b.X, depth-1).add(symLin(b.Y, depth-1), 1)
			case token.SUB:
				return symLin(b.X, depth-1).add(symLin(b.Y, depth-1), -1)
			case token.MUL:
				if k, ok := constInt(b.Y); ok {
					return linConst(0).add(symLin(b.X, depth-1), k)
				}
				if k, ok := constInt(b.X); ok {
					return linConst(0).add(symLin(b.Y, depth-1), k)
				}
			}
		}
	}
	if u, ok := v.(*ssa.UnOp); ok && u.Op == token.MUL {
		if w := wordOf(u.X); w != "" {
			return linAtom("load:" + w)
		}
	}
	if c, ok := v.(*ssa.Call); ok {
		if b, isB := c.Call.Value.(*ssa.Builtin); isB && (b.Name() == "len" || b.Name() == "cap") && len(c.Call.Args) == 1 {
			return linAtom(b.Name() + "(" + valKey(stripConv(c.Call.Args[0])) + ")") // len(x) evaluated twice is one atom
		}
	}
	return linAtom(valKey(v))
}

func (a lin) isConst() (int64, bool) { return a.c, len(a.k) == 0 }

// singleAtom: a == 1*atom + 0.
func (a lin) singleAtom() (string, bool) {
	if a.c != 0 || len(a.k) != 1 {
		return "", false
	}
	for k, v := range a.k {
		if v == 1 {
			return k, true
		}
	}
	return "", false
}

func (a lin) equal(b lin) bool {
	d := a.add(b, -1)
	c, ok := d.isConst()
	return ok && c == 0
}
