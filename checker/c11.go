package main

import (
	"go/token"
	"go/types"
	"sort"
	"strings"

	"golang.org/x/tools/go/ssa"
)

func init() {
	register(&property{
		ID: "C11",
		Explanation: "Decides that every blocking primitive in the package has an escape that the teardown paths actually trigger: each blocking select has an arm on a channel that a teardown role closes (Session.shutdownCh, Stream.closeNotifyCh, listener.closeCh, ctx.Done()) or on a timer armed in the same function; every bare channel send/receive, WaitGroup.Wait and sleep is classified in a frozen table with its reason and side-condition (closer exists and is once-guarded; counterpart event guaranteed); " +
			"Session.Close wakes every stream (closes each notify channel under the stream lock) and closes shutdownCh before it posts the teardown; every transition of a stream away from opened closes its notify channel (directly, or through the close routine for the deferred local close); readMore re-checks buffered data before the first wait and after every wake-up and arms/stops the deadline timer; Flush's queue-full retry loop is bounded by a constant. " +
			"NOT decided: every timing claim (never early, within a bounded time) and lost-notification schedules between entering the wait and the event.",
		RuleText: "R11.1 census of every select/send/receive/Wait/Sleep instruction of the package, each classified (a) select with escape arm, (b) receive on a channel closed by a teardown role, (c) paired protocol event, (d) listed exception; closers verified; R11.2 ordering in Session.Close; R11.3 per CAS leaving streamOpened; R11.4 per wake-up arm of readMore; R11.5 loop bound of Flush; R11.6 re-arming of one-shot timers that are awaited again in a loop; R11.7 every timer arm belongs to a timer that was armed before the wait; R11.8 reused timers are drained after a late Stop().",
		Run:      runC11,
	})
}

// escape channels: field -> who closes it
var escapeChans = map[string]string{
	"Session.shutdownCh":   "(*Session).Close",
	"Stream.closeNotifyCh": "(*Stream).safeCloseNotify",
	"listener.closeCh":     "(*listener).Close",
}

func isTimeAfter(v ssa.Value) bool {
	c, ok := v.(*ssa.Call)
	if !ok {
		return false
	}
	f := c.Call.StaticCallee()
	return f != nil && f.String() == "time.After"
}

func isTimerChan(v ssa.Value, depth int) bool {
	if depth < 0 {
		return false
	}
	if isTimeAfter(v) {
		return true
	}
	if fa, ok := loadOfField(v); ok {
		k := fieldKey(fa)
		return k == "Timer.C" || k == "Ticker.C"
	}
	if ph, ok := v.(*ssa.Phi); ok {
		for _, e := range ph.Edges {
			if isTimerChan(e, depth-1) {
				return true
			}
		}
	}
	return false
}

func isCtxDone(v ssa.Value) bool {
	c, ok := v.(*ssa.Call)
	return ok && c.Call.IsInvoke() && c.Call.Method.Name() == "Done"
}

func (p *P) closesChan(f *ssa.Function, field string) []ssa.Instruction {
	var out []ssa.Instruction
	if f == nil {
		return nil
	}
	visit := func(g *ssa.Function) {
		allInstrs(g, func(in ssa.Instruction) {
			if c, ok := in.(*ssa.Call); ok {
				if b, ok := c.Call.Value.(*ssa.Builtin); ok && b.Name() == "close" && isLoadOf(c.Call.Args[0], field) {
					out = append(out, in)
				}
			}
		})
	}
	visit(f)
	for _, g := range f.AnonFuncs {
		visit(g)
	}
	return out
}

func runC11(p *P, r *R) {
	// closers exist
	for fld, closer := range escapeChans {
		f := p.fn(closer)
		n := len(p.closesChan(f, fld))
		r.ob("R11.1", "escape channel "+fld+" is closed by "+closer, "", n > 0, true, "a wait whose escape is never triggered is no escape")
	}
	// the session's CloseChan() is its shutdownCh
	closeChanOK := false
	if f := p.fn("(*Session).CloseChan"); f != nil {
		for _, ret := range returnsOf(f) {
			if isLoadOf(stripConv(ret.Results[0]), "Session.shutdownCh") {
				closeChanOK = true
			}
		}
	}
	// frozen exception table: function | kind -> reason
	exceptions := map[string]string{
		"(*Session).send|recv:Session.notifyContinueWriteCh":                "(c) every fast-path release of Session.writing is followed by asyncNotify (C18 R18.2), and shutdown ends the loop's outer select",
		"(*connEventHandler).write|recv:connEventHandler.onWriteReadyCh":    "(b) closed by deferredClose (teardown); the loop re-tests isClose afterwards",
		"(*connEventHandler).doWritev|recv:connEventHandler.onWriteReadyCh": "(b) closed by deferredClose (teardown); the loop re-tests isClose afterwards",
		"(*Stream).close|wait:Stream.asyncGoroutineWg":                      "(d) waits for the user's OnData callback to return (user code)",
		"(*Session).Close$1|wait:Stream.asyncGoroutineWg":                   "(d) waits for the user's OnData callback to return (user code)",
		"(*SessionManager).Close|wait:SessionManager.wg":                    "(d) watcher goroutines: every wait in them has a ctx.Done() arm and Close cancels first (C17 R17.3)",
		"(*epollDispatcher).shutdown|wait:epollDispatcher.waitLoopExitWg":   "(d) internal: dispatcher loop exits when its epoll file is closed",
		"(*listener).listenLoop$1$1|wait:captured wg":                       "(d) by design: the session ends when the listener and every accepted conn released their reference (C19 R19.2)",
		"(*Listener).Run|sleep":                                             "(d) bounded back-off (10ms) on EMFILE, loop re-tries accept",
		"(*SessionManager).background$1|sleep":                              "(d) bounded poll (500ms) while hot restart is in progress; the state is left within the hot-restart time-out (C16 R16.2)",
		"(*bufferManager).unmap|sleep":                                      "(d) bounded: at most 50 x 100us",
	}
	used := map[string]bool{}
	nSel, nOther := 0, 0
	// lookup: the entry of the function itself, or — when the wait sits in a helper split off a listed function (same
	// receiver, called from nowhere else) — the entry of that function
	lookup := func(f *ssa.Function, kind string) (string, bool) {
		key := p.fname(f) + "|" + kind
		if reason, ok := exceptions[key]; ok {
			used[key] = true
			return reason, true
		}
		for k, reason := range exceptions {
			i := strings.Index(k, "|")
			if i < 0 || k[i+1:] != kind {
				continue
			}
			if root := p.fn(k[:i]); root != nil && root != f && inFns(f, p.family(root)) {
				used[k] = true
				return reason + " [in helper " + p.fname(f) + " of " + k[:i] + "]", true
			}
		}
		return "", false
	}
	for _, f := range p.fnList {
		fn := p.fname(f)
		f := f
		allInstrs(f, func(in ssa.Instruction) {
			switch x := in.(type) {
			case *ssa.Select:
				if !x.Blocking {
					return
				}
				nSel++
				why := ""
				for _, st := range x.States {
					if st.Dir != types.RecvOnly {
						continue
					}
					if fa, ok := loadOfField(st.Chan); ok {
						if _, isEsc := escapeChans[fieldKey(fa)]; isEsc {
							why = "escape arm on " + fieldKey(fa)
						}
					}
					if isTimerChan(st.Chan, 2) && why == "" {
						// the timer must be a real one on at least one phi edge; a possibly-nil timer channel alone is no escape
						if _, isPhi := st.Chan.(*ssa.Phi); !isPhi {
							why = "timer arm"
						}
					}
					if isCtxDone(st.Chan) {
						why = "ctx.Done() arm"
					}
					if c, ok := st.Chan.(*ssa.Call); ok && p.calleeName(&c.Call) == "(*Session).CloseChan" && closeChanOK && why == "" {
						why = "session close channel arm"
					}
				}
				var arms []string
				for _, st := range x.States {
					arms = append(arms, chanName(p, st.Chan))
				}
				r.ob("R11.1", fn+": blocking select ["+strings.Join(arms, ",")+"] has an escape arm", p.ipos(in), why != "", true,
					"%s (escape = channel closed by a teardown role, ctx.Done(), or an unconditional timer)", why)
			case *ssa.Send:
				nOther++
				reason, ok := lookup(f, "send:"+chanName(p, x.Chan))
				r.ob("R11.1", fn+": bare channel send on "+chanName(p, x.Chan)+" cannot block forever", p.ipos(in), ok, true,
					"%s (a bare send has no shutdown/timeout alternative: when the receiver is gone the sender never returns)", reason)
			case *ssa.UnOp:
				if x.Op != token.ARROW {
					return
				}
				nOther++
				reason, ok := lookup(f, "recv:"+chanName(p, x.X))
				r.ob("R11.1", fn+": bare channel receive on "+chanName(p, x.X)+" cannot block forever", p.ipos(in), ok, true, "%s", reason)
			case *ssa.Call:
				n := p.calleeName(&x.Call)
				switch n {
				case "(*sync.WaitGroup).Wait":
					nOther++
					reason, ok := lookup(f, "wait:"+chanNameAddr(p, x.Call.Args[0]))
					r.ob("R11.1", fn+": WaitGroup.Wait on "+chanNameAddr(p, x.Call.Args[0])+" is a listed, justified wait", p.ipos(in), ok, true, "%s", reason)
				case "time.Sleep":
					nOther++
					reason, ok := lookup(f, "sleep")
					_, isConst := constInt(x.Call.Args[0])
					r.ob("R11.1", fn+": sleep is bounded and listed", p.ipos(in), ok && isConst, true, "%s", reason)
				case "(*sync.Cond).Wait":
					r.fail("R11.1", fn+": sync.Cond.Wait", p.ipos(in), "unclassified blocking primitive")
				}
			}
		})
	}
	r.count("R11.1", "blocking selects", nSel, 12)
	r.count("R11.1", "bare sends/receives/waits/sleeps", nOther, 8)
	// side-conditions of class (b): the channel is closed by a once-guarded teardown
	if dc := p.fn("(*connEventHandler).deferredClose"); dc != nil {
		cl := p.closesChan(dc, "connEventHandler.onWriteReadyCh")
		okb := len(cl) > 0 && p.guardedByCall(cl[0], p.mAtomic("CAS", "connEventHandler.isClose"), true)
		r.ob("R11.1", "class (b): onWriteReadyCh is closed by deferredClose behind CAS(isClose,0,1)", p.pos(dc.Pos()), okb, true, "")
	} else {
		r.fail("R11.1", "anchor (*connEventHandler).deferredClose", "", "not found")
	}
	for _, wn := range []string{"(*connEventHandler).write", "(*connEventHandler).doWritev"} {
		if f := p.fn(wn); f != nil {
			// after the wake-up the loop re-tests isClose before the next syscall
			ok := false
			allInstrs(f, func(in ssa.Instruction) {
				if a := p.atomicOp(in); a != nil && a.Op == "Load" && a.Word == "connEventHandler.isClose" {
					for _, sc := range findInstrs(f, M{ID: "sys", F: func(i2 ssa.Instruction) bool {
						c, okc := i2.(*ssa.Call)
						return okc && strings.HasSuffix(p.calleeName(&c.Call), ".Syscall")
					}}) {
						if instrDominates(in, sc) {
							ok = true
						}
					}
				}
			})
			r.ob("R11.1", wn+": re-tests isClose before every write syscall", p.pos(f.Pos()), ok, true, "a receive on the closed channel returns immediately; the closed test turns it into EPIPE")
		}
	}

	// ---- R11.2 Session.Close order
	closeWakesStreams(p, r, "R11.2")

	// ---- R11.3 every departure from opened closes the notify channel
	casS := p.mAtomic("CAS", "Stream.state")
	n3 := 0
	for _, f := range p.fnList {
		for _, b := range f.Blocks {
			ifi := blockIf(b)
			var call *ssa.Call
			pol := true
			if ifi != nil {
				call, pol = condCall(ifi.Cond)
			}
			if call == nil || !casS.F(call) {
				continue
			}
			old, okO := constInt(call.Call.Args[1])
			nw, _ := constInt(call.Call.Args[2])
			if !okO || old != stOpened {
				continue
			}
			n3++
			win := 0
			if !pol {
				win = 1
			}
			res := p.mustPass(f, []Point{{b.Succs[win], -1}}, func(in ssa.Instruction) bool { return p.mCall("(*Stream).safeCloseNotify").F(in) }, nil, nil)
			_ = nw
			r.ob("R11.3", p.fname(f)+": leaving opened closes the stream's notify channel", p.ipos(ifi), res.OK, true,
				"a reader blocked in another goroutine is woken only through closeNotifyCh: %s", p.pathString(res))
		}
		// CAS whose result is not branched on (the exported Close's deferred local close)
		allInstrs(f, func(in ssa.Instruction) {
			c, ok := in.(*ssa.Call)
			if !ok || !casS.F(c) {
				return
			}
			branched := false
			if refs := c.Referrers(); refs != nil {
				for _, ref := range *refs {
					if _, isIf := ref.(*ssa.If); isIf {
						branched = true
					}
				}
			}
			if branched {
				return
			}
			old, okO := constInt(c.Call.Args[1])
			nw, okN := constInt(c.Call.Args[2])
			if !okO || old != stOpened {
				return
			}
			n3++
			// exception with checked side-condition: the deferred local close is finished by the callback goroutine
			side := okN && nw == stLocalClosing && c11DeferredCloseFinished(p)
			r.ob("R11.3", p.fname(f)+": unbranched CAS opened -> "+itoa(nw)+" is the deferred local close that the callback goroutine finishes", p.ipos(in), side, true,
				"side-conditions: the new state is localClosing, the callback goroutine calls close() when callbackCloseState is set, and close() treats localClosing like opened (C10 R10.3)")
		})
	}
	r.count("R11.3", "CAS sites leaving opened", n3, 2)

	// a close from any starting state closes the notify channel (shared with C10 R10.3)
	borrow(p, r, "C10", runC10, map[string]string{"R10.3": "R11.3"}, func(o Ob) bool { return constructHas(o, "closes the notify channel") })
	c11NoBlockingUnderLock(p, r)
	c11LockOrder(p, r)
	c11DispatcherWaits(p, r)
	c11LocksReleased(p, r)
	// the callback goroutine leaves the wait group before it finishes a deferred close, which waits on that group (shared with C20 R20.4)
	borrow(p, r, "C20", runC20, map[string]string{"R20.4": "R11.15"}, nil)
	// a read blocked for more data is woken by every arrival (shared with C20 R20.1)
	arrivalWakesReaders(p, r, "R11.10")
	// the writer parked after EAGAIN is released by every EPOLLOUT edge (shared with C18 R18.7)
	epollDemux(p, r, "R11.9")
	c11ReadMore(p, r)
	c11FlushBound(p, r)
	r.count("R11.6", "one-shot timers awaited in loops", timerRearmed(p, r, "R11.6", nil), 1)
	c11TimersArmed(p, r)
	c11ReusedTimersDrained(p, r)
}

func chanNameAddr(p *P, v ssa.Value) string {
	if fa, ok := v.(*ssa.FieldAddr); ok {
		return fieldKey(fa)
	}
	return chanName(p, v)
}

// c11DeferredCloseFinished: the closure spawned by fillDataToReadBuffer calls close() on the edge
// callbackCloseState == callbackWaitExit, and Close() stores that state before its CAS.
func c11DeferredCloseFinished(p *P) bool {
	fd := p.fn("(*Stream).fillDataToReadBuffer")
	cl := p.fn("(*Stream).Close")
	if fd == nil || cl == nil {
		return false
	}
	okGo := false
	for _, g := range fd.AnonFuncs {
		for _, ci := range findInstrs(g, p.mCall("(*Stream).close")) {
			for _, fct := range factsAt(ci.Block()) {
				isCS := func(v ssa.Value) bool {
					a := p.atomicOpOfValue(v)
					return a != nil && a.Op == "Load" && a.Word == "Stream.callbackCloseState"
				}
				isOne := func(v ssa.Value) bool { c, ok := constInt(v); return ok && c == 1 }
				if relOn(fct.Cond, fct.Truth, isCS, isOne) == "==" {
					okGo = true
				}
			}
		}
	}
	okSet := false
	casS := p.mAtomic("CAS", "Stream.state")
	for _, si := range findInstrs(cl, p.mAtomic("Store", "Stream.callbackCloseState")) {
		for _, ci := range findInstrs(cl, casS) {
			if p.reaches(si, ci, nil) {
				okSet = true
			}
		}
	}
	return okGo && okSet
}

// R11.4
func c11ReadMore(p *P, r *R) {
	f := p.fn("(*Stream).readMore")
	if f == nil {
		r.fail("R11.4", "anchor (*Stream).readMore", "", "not found")
		return
	}
	var sel *ssa.Select
	allInstrs(f, func(in ssa.Instruction) {
		if s, ok := in.(*ssa.Select); ok && s.Blocking {
			sel = s
		}
	})
	if sel == nil {
		r.fail("R11.4", "readMore: blocking select", p.pos(f.Pos()), "not found")
		return
	}
	moveTo := p.mCall("(*pendingData).moveTo")
	// before the first wait
	okBefore := false
	allInstrs(f, func(mi ssa.Instruction) {
		if p.evMust(mi, moveTo, 2) && instrDominates(mi, sel) && !p.reaches(sel, mi, nil) {
			okBefore = true
		}
	})
	r.ob("R11.4", "readMore: buffered and pending data is checked before the first wait", p.ipos(sel), okBefore, true, "")
	// after each wake-up arm (recvNotifyCh, closeNotifyCh): moveTo, then Len() >= minSize test
	for i, st := range sel.States {
		fa, ok := loadOfField(st.Chan)
		if !ok {
			continue
		}
		k := fieldKey(fa)
		if k != "Stream.recvNotifyCh" && k != "Stream.closeNotifyCh" {
			continue
		}
		// find the block of this arm: the edge where index == i
		var arm *ssa.BasicBlock
		for _, b := range f.Blocks {
			for si := range b.Succs {
				if s2, kk, eq := selectEdge(b, si); s2 == sel && kk == int64(i) && eq {
					arm = b.Succs[si]
				}
			}
		}
		if arm == nil {
			r.fail("R11.4", "readMore: arm of "+k, p.ipos(sel), "arm block not found")
			continue
		}
		moved := func(in ssa.Instruction) bool { return p.evMust(in, moveTo, 2) } // directly or in a refill helper
		res := p.mustPass(f, []Point{{arm, -1}}, moved, func(b *ssa.BasicBlock, si int) bool { return true }, nil)
		loopBack := p.reachesWithout(Point{arm, -1}, sel, moved, nil)
		r.ob("R11.4", "readMore: after a wake-up on "+k+" pending data is moved and re-checked before waiting again", p.ipos(sel), res.OK && !loopBack, true, "%s", p.pathString(res))
	}
	// deadline timer: armed from readDeadline before the loop, stopped on exit
	armed := false
	allInstrs(f, func(in ssa.Instruction) {
		if c, ok := in.(*ssa.Call); ok {
			n := p.calleeName(&c.Call)
			if (n == "time.NewTimer" || n == "(*time.Timer).Reset") && instrDominates(in, sel) || (n == "time.NewTimer" || n == "(*time.Timer).Reset") && p.reaches(in, sel, nil) {
				armed = true
			}
		}
	})
	r.ob("R11.4", "readMore: the deadline timer is armed from readDeadline before the wait", p.ipos(sel), armed, true, "")
	tmArm := false
	for _, st := range sel.States {
		if isTimerChan(st.Chan, 2) {
			tmArm = true
		}
	}
	r.ob("R11.4", "readMore: the wait has a deadline arm", p.ipos(sel), tmArm, true, "")
	stopped := false
	allInstrs(f, func(in ssa.Instruction) {
		if d, ok := in.(*ssa.Defer); ok {
			for _, g := range closureArgs(d) {
				if len(findInstrs(g, p.mCall("(*time.Timer).Stop"))) > 0 {
					stopped = true
				}
			}
			if mc, ok := d.Call.Value.(*ssa.MakeClosure); ok {
				if g, ok := mc.Fn.(*ssa.Function); ok && len(findInstrs(g, p.mCall("(*time.Timer).Stop"))) > 0 {
					stopped = true
				}
			}
		}
	})
	r.ob("R11.4", "readMore: the deadline timer is stopped on every exit (deferred)", p.pos(f.Pos()), stopped, true, "")
	// timeout arm returns the timeout error; close arm returns an end/closed error when still short
	for _, ret := range returnsOf(f) {
		v := lastResult(ret)
		if u, ok := v.(*ssa.UnOp); ok {
			if g, ok := u.X.(*ssa.Global); ok && g.Name() == "ErrTimeout" {
				onTimer := false
				for _, b := range f.Blocks {
					for si := range b.Succs {
						if s2, kk, eq := selectEdge(b, si); s2 == sel && eq && isTimerChan(sel.States[kk].Chan, 2) && (b.Succs[si] == ret.Block() || b.Succs[si].Dominates(ret.Block())) {
							onTimer = true
						}
					}
				}
				r.ob("R11.4", "readMore: the timeout error is returned only from the deadline arm (never early)", p.ipos(ret), onTimer, true, "")
			}
		}
	}
}

// R11.5
func c11FlushBound(p *P, r *R) {
	f := p.fn("(*Stream).Flush")
	if f == nil {
		r.fail("R11.5", "anchor (*Stream).Flush", "", "not found")
		return
	}
	var sel *ssa.Select
	_, wr := p.putFamily()
	for _, g := range append([]*ssa.Function{f}, wr...) {
		allInstrs(g, func(in ssa.Instruction) {
			if s, ok := in.(*ssa.Select); ok && s.Blocking && sel == nil {
				sel = s
				f = g
			}
		})
	}
	if sel == nil {
		r.fail("R11.5", "Flush: retry select", p.pos(f.Pos()), "not found")
		return
	}
	// a loop counter phi: edges {const, phi+1}, tested `phi < const` on the way to the select
	ok := false
	for _, b := range f.Blocks {
		for _, in := range b.Instrs {
			ph, isPhi := in.(*ssa.Phi)
			if !isPhi || !isInteger(ph.Type()) {
				continue
			}
			inc, init := false, false
			for _, e := range ph.Edges {
				if _, isC := constInt(e); isC {
					init = true
				}
				if bo, isB := e.(*ssa.BinOp); isB && bo.Op == token.ADD && bo.X == ssa.Value(ph) {
					if c, isC := constInt(bo.Y); isC && c == 1 {
						inc = true
					}
				}
			}
			if !inc || !init {
				continue
			}
			isI := func(v ssa.Value) bool { return v == ssa.Value(ph) }
			isK := func(v ssa.Value) bool { _, okc := constInt(v); return okc }
			for _, fct := range factsAt(sel.Block()) {
				if relOn(fct.Cond, fct.Truth, isI, isK) == "<" {
					ok = true
				}
			}
		}
	}
	r.ob("R11.5", "Flush: the queue-full retry loop is bounded by a constant iteration count", p.ipos(sel), ok, true, "Flush returns although the queue stays full")
	hasClose, hasTimer := false, false
	for _, st := range sel.States {
		if fa, okf := loadOfField(st.Chan); okf && fieldKey(fa) == "Stream.closeNotifyCh" {
			hasClose = true
		}
		if isTimerChan(st.Chan, 2) {
			hasTimer = true
		}
	}
	r.ob("R11.5", "Flush: each retry wait ends on the retry timer, the write deadline or stream close", p.ipos(sel), hasClose && hasTimer, true, "")
}

// closeWakesStreams (R11.2 / R14.6): Session.Close closes every stream's notify channel (under the
// stream lock, over the whole table) and shutdownCh on the CAS-success path, before the teardown is
// posted to the event loop.
func closeWakesStreams(p *P, r *R, rule string) {
	sessClose := p.fn("(*Session).Close")
	if sessClose == nil {
		r.fail(rule, "anchor (*Session).Close", "", "not found")
	} else {
		casM := p.mAtomic("CAS", "Session.shutdown")
		notifies := findInstrs(sessClose, p.mCall("(*Stream).safeCloseNotify"))
		closes := p.closesChan(sessClose, "Session.shutdownCh")
		var posts []ssa.Instruction
		allInstrs(sessClose, func(in ssa.Instruction) {
			if c, ok := in.(*ssa.Call); ok && c.Call.IsInvoke() && c.Call.Method.Name() == "post" {
				posts = append(posts, in)
			}
		})
		// a wake event is a direct safeCloseNotify call, or a call of a local helper whose every path runs the locked, ranged loop
		notifyM := p.mCall("(*Stream).safeCloseNotify")
		check := func(f *ssa.Function, ni ssa.Instruction) (bool, bool) {
			held, _ := p.heldBefore(f, p.mutexRegion("Session.streamLock"), false)
			ranged := false
			if e, ok := ni.(*ssa.Call).Call.Args[0].(*ssa.Extract); ok {
				if nx, ok := e.Tuple.(*ssa.Next); ok {
					if rg, ok := nx.Iter.(*ssa.Range); ok && isLoadOf(rg.X, "Session.streams") {
						ranged = true
					}
				}
			}
			return held[ni], ranged
		}
		type wakeEv struct {
			in           ssa.Instruction
			held, ranged bool
		}
		var evs []wakeEv
		for _, ni := range notifies {
			h, rg := check(sessClose, ni)
			evs = append(evs, wakeEv{ni, h, rg})
		}
		allInstrs(sessClose, func(in ssa.Instruction) {
			if _, isCall := in.(*ssa.Call); !isCall {
				return
			}
			g := p.localCallee(in)
			if g == nil || g == sessClose {
				return
			}
			inner := findInstrs(g, notifyM)
			if len(inner) == 0 {
				return
			}
			h, rg := true, true
			for _, ni := range inner {
				h2, rg2 := check(g, ni)
				h, rg = h && h2, rg && rg2
			}
			// every path through the helper runs the loop over the table
			res := p.mustPass(g, []Point{{g.Blocks[0], -1}}, func(i2 ssa.Instruction) bool {
				rgi, ok := i2.(*ssa.Range)
				return ok && isLoadOf(rgi.X, "Session.streams")
			}, nil, nil)
			evs = append(evs, wakeEv{in, h, rg && res.OK})
		})
		notifies = nil
		for _, e := range evs {
			notifies = append(notifies, e.in)
		}
		r.count(rule, "safeCloseNotify calls in Session.Close", len(notifies), 1)
		r.count(rule, "teardown posts in Session.Close", len(posts), 1)
		for _, e := range evs {
			r.ob(rule, "Session.Close: every stream's notify channel is closed on the CAS-success path, under streamLock", p.ipos(e.in), p.guardedByCall(e.in, casM, true) && e.held, true, "")
			r.ob(rule, "Session.Close: the wake-up loop ranges over the whole stream table", p.ipos(e.in), e.ranged, true, "")
		}
		for _, po := range posts {
			okOrder := len(closes) > 0
			for _, c := range closes {
				if !instrDominates(c, po) {
					okOrder = false
				}
			}
			// the loop must be complete before the post: the post is not inside the range loop and is reachable only after it
			for _, ni := range notifies {
				if !p.reaches(ni, po, nil) || p.reaches(po, ni, nil) {
					okOrder = false
				}
			}
			r.ob(rule, "Session.Close: streams are woken and shutdownCh is closed before the teardown is posted", p.ipos(po), okOrder, true,
				"a blocked reader must be released by the notify channel before its buffers disappear")
		}
	}

}

// timerRearmed (R11.6 / R17.1): a one-shot timer (time.Timer) awaited by a select inside a loop must be
// re-armed (time.NewTimer / Reset) on every path that leads from its own arm back to the select;
// otherwise the second wait never ends (the channel was drained). Tickers repeat by themselves.
func timerRearmed(p *P, r *R, rule string, only func(f *ssa.Function) bool) int {
	n := 0
	for _, f := range p.fnList {
		if only != nil && !only(f) {
			continue
		}
		allInstrs(f, func(in ssa.Instruction) {
			sel, ok := in.(*ssa.Select)
			if !ok || !sel.Blocking {
				return
			}
			for k, st := range sel.States {
				if !isTimerField(st.Chan, "Timer.C") && !isTimeAfter(st.Chan) {
					if ph, isPhi := st.Chan.(*ssa.Phi); !isPhi || !isTimerChan(ph, 2) {
						continue
					}
				}
				// the arm's block
				for _, b := range f.Blocks {
					for i := range b.Succs {
						s2, kk, eq := selectEdge(b, i)
						if s2 != sel || !eq || kk != int64(k) {
							continue
						}
						arm := b.Succs[i]
						rearm := func(i2 ssa.Instruction) bool {
							c, okc := i2.(*ssa.Call)
							if !okc {
								return false
							}
							nm := p.calleeName(&c.Call)
							return nm == "time.NewTimer" || nm == "(*time.Timer).Reset" || nm == "time.After"
						}
						if !p.reachesWithout(Point{arm, -1}, sel, nil, nil) {
							continue // the arm leaves the loop
						}
						n++
						bad := p.reachesWithout(Point{arm, -1}, sel, rearm, nil)
						r.ob(rule, p.fname(f)+": a one-shot timer awaited in a loop is re-armed before every further wait", p.ipos(sel), !bad, true,
							"after the timer fired once its channel stays empty: a second wait on it never ends (e.g. the retry after a failed reconnect)")
					}
				}
			}
		})
	}
	return n
}

// R11.7: a timer that a blocking select relies on is armed before the wait: it is the result of
// time.NewTimer, or a Reset of that very timer dominates the select (pooled timers are handed out stopped).
func c11TimersArmed(p *P, r *R) {
	n := 0
	for _, f := range p.fnList {
		allInstrs(f, func(in ssa.Instruction) {
			sel, ok := in.(*ssa.Select)
			if !ok || !sel.Blocking {
				return
			}
			for _, st := range sel.States {
				fa, okf := loadOfField(st.Chan)
				if !okf || fieldKey(fa) != "Timer.C" {
					continue
				}
				tm := fa.X
				n++
				armed := false
				if c, okc := tm.(*ssa.Call); okc && p.calleeName(&c.Call) == "time.NewTimer" {
					armed = true
				}
				for _, ri := range findInstrs(f, p.mCall("(*time.Timer).Reset")) {
					if sameExpr(ri.(*ssa.Call).Call.Args[0], tm, 4) && instrDominates(ri, sel) {
						armed = true
					}
				}
				r.ob("R11.7", p.fname(f)+": the timer a wait relies on is armed before the wait", p.ipos(sel), armed, true,
					"a stopped (pooled) timer never fires: the wait loses its time bound")
			}
		})
	}
	r.count("R11.7", "timer arms of blocking selects", n, 5)
}

// R11.8: a timer that is reused (kept in a struct field and Reset, or taken from / returned to a pool) is
// drained when Stop() reports that it already fired; otherwise the stale tick makes the next wait that
// relies on it return a timeout at once (the module's go directive predates the 1.23 timer semantics).
func c11ReusedTimersDrained(p *P, r *R) {
	n := 0
	for _, f := range p.fnList {
		for _, si := range findInstrs(f, p.mCallD("(*time.Timer).Stop")) {
			cc := callCommon(si)
			tm := cc.Args[0]
			reused := false
			if fa, ok := loadOfField(tm); ok && fieldKey(fa) != "" {
				reused = true // kept in a struct field
			}
			if ta, ok := tm.(*ssa.TypeAssert); ok {
				if c, okc := ta.X.(*ssa.Call); okc && p.calleeName(&c.Call) == "(*sync.Pool).Get" {
					reused = true
				}
			}
			// a captured variable of the enclosing function that is a field load / pooled there
			if fv, ok := tm.(*ssa.UnOp); ok {
				if _, isFree := fv.X.(*ssa.FreeVar); isFree {
					reused = true
				}
			}
			if _, isFree := tm.(*ssa.FreeVar); isFree {
				reused = true
			}
			if !reused {
				continue
			}
			if _, isDefer := si.(*ssa.Defer); isDefer {
				// `defer timer.Stop()` of a reused timer cannot drain
				n++
				r.fail("R11.8", p.fname(f)+": a reused timer is drained when Stop() reports it already fired", p.ipos(si), "deferred Stop() without a drain")
				continue
			}
			n++
			drained := false
			allInstrs(f, func(in ssa.Instruction) {
				sel, ok := in.(*ssa.Select)
				if !ok || sel.Blocking {
					return
				}
				for _, st := range sel.States {
					fa, okf := loadOfField(st.Chan)
					if !okf || fieldKey(fa) != "Timer.C" || !sameExpr(fa.X, tm, 4) {
						continue
					}
					if instrDominates(si, sel) {
						// unconditional drain, or on the Stop()==false edge
						drained = true
					}
				}
			})
			r.ob("R11.8", p.fname(f)+": a reused timer is drained when Stop() reports it already fired", p.ipos(si), drained, true,
				"a tick left in the channel makes the next deadline wait on this timer end immediately (a timeout reported early)")
		}
	}
	r.count("R11.8", "Stop() calls on reused timers", n, 1)
}

// c11NoBlockingUnderLock (R11.11): nothing that can block for an unbounded time — a blocking select, a bare channel
// operation, WaitGroup.Wait, a sleep, or a call into user code (the ListenCallback / StreamCallbacks interfaces) — runs
// while one of the package's mutexes may be held: the teardown roles take the same mutexes before they release the
// waiters (Session.Close takes streamLock before closing shutdownCh), so such a wait can never be ended.
func c11NoBlockingUnderLock(p *P, r *R) {
	userMethods := map[string]bool{}
	for _, in := range []string{"ListenCallback", "StreamCallbacks"} {
		if tn, ok := p.TPkg.Scope().Lookup(in).(*types.TypeName); ok {
			if it, ok := tn.Type().Underlying().(*types.Interface); ok {
				for i := 0; i < it.NumMethods(); i++ {
					userMethods[it.Method(i).Name()] = true
				}
			}
		}
	}
	r.count("R11.11", "methods of the user callback interfaces", len(userMethods), 4)
	// frozen exception table: lock | function | what -> reason
	exceptions := map[string]string{
		"Listener.mu|(*Listener).Close|user callback OnShutdown": "existing behaviour: the listener reports its shutdown under its own mutex; no teardown role needs Listener.mu to release a waiter",
	}
	words := map[string]bool{}
	for _, f := range p.fnList {
		allInstrs(f, func(in ssa.Instruction) {
			cc := callCommon(in)
			if cc == nil || len(cc.Args) == 0 {
				return
			}
			switch p.calleeName(cc) {
			case "(*sync.Mutex).Lock", "(*sync.RWMutex).Lock", "(*sync.RWMutex).RLock":
				if w := wordOf(cc.Args[0]); w != "" {
					words[w] = true
				}
			}
		})
	}
	r.count("R11.11", "mutexes of the package", len(words), 6)
	var ws []string
	for w := range words {
		ws = append(ws, w)
	}
	sort.Strings(ws)
	used := map[string]bool{}
	for _, w := range ws {
		rg := p.mutexRegion(w)
		for _, f := range p.fnList {
			if len(findInstrs(f, M{ID: "acq", F: rg.Acquire})) == 0 {
				continue
			}
			mh := p.mayHeldBefore(f, rg)
			allInstrs(f, func(in ssa.Instruction) {
				if !mh[in] {
					return
				}
				what := ""
				switch x := in.(type) {
				case *ssa.Select:
					if x.Blocking {
						what = "blocking select"
					}
				case *ssa.Send:
					what = "bare channel send"
				case *ssa.UnOp:
					if x.Op == token.ARROW {
						what = "bare channel receive"
					}
				case *ssa.Call:
					n := p.calleeName(&x.Call)
					if n == "(*sync.WaitGroup).Wait" || n == "time.Sleep" {
						what = n
					}
					if x.Call.IsInvoke() && userMethods[x.Call.Method.Name()] {
						if nn := namedName(x.Call.Value.Type()); nn == "ListenCallback" || nn == "StreamCallbacks" {
							what = "user callback " + x.Call.Method.Name()
						}
					}
				}
				if what == "" {
					return
				}
				key := w + "|" + p.fname(f) + "|" + what
				reason, ok := exceptions[key]
				used[key] = true
				r.ob("R11.11", p.fname(f)+": "+what+" while "+w+" may be held", p.ipos(in), ok, true, "%s", reason)
			})
		}
	}
	for k := range exceptions {
		if !used[k] {
			r.note("R11.11 exception entry %q no longer matches anything (stale, harmless)", k)
		}
	}
}

// c11LockOrder (R11.12): the package's mutexes are not re-entrant. While a mutex may be held, nothing reachable
// through the calls made (static callees and, through the VTA call graph, interface methods such as the listener's
// per-session shutdown callback) may acquire the same mutex again, and the "acquired while held" relation between
// different mutexes must be free of cycles. Mutexes are identified by the field they live in (not by instance): a
// report means "some instance may", which for the session set / listener / manager singletons is exact.
func c11LockOrder(p *P, r *R) {
	lockOf := func(in ssa.Instruction) string {
		cc := callCommon(in)
		if cc == nil || len(cc.Args) == 0 {
			return ""
		}
		switch p.calleeName(cc) {
		case "(*sync.Mutex).Lock", "(*sync.RWMutex).Lock", "(*sync.RWMutex).RLock":
			return wordOf(cc.Args[0])
		}
		return ""
	}
	words := map[string]bool{}
	for _, f := range p.fnList {
		allInstrs(f, func(in ssa.Instruction) {
			if w := lockOf(in); w != "" {
				words[w] = true
			}
		})
	}
	cg := p.callGraph()
	calleesOf := func(f *ssa.Function, in ssa.Instruction) []*ssa.Function {
		if _, isGo := in.(*ssa.Go); isGo {
			return nil
		}
		if g := p.localCallee(in); g != nil {
			return []*ssa.Function{g}
		}
		cc := callCommon(in)
		if cc == nil || !cc.IsInvoke() {
			return nil
		}
		var out []*ssa.Function
		if nd := cg.Nodes[f]; nd != nil {
			for _, e := range nd.Out {
				if e.Site == in && e.Callee.Func.Pkg == p.Pkg && e.Callee.Func.Blocks != nil {
					out = append(out, e.Callee.Func)
				}
			}
		}
		return out
	}
	// transitive set of mutexes a function may acquire, with one witness chain each
	type acq map[string]string
	memo := map[*ssa.Function]acq{}
	var summarize func(f *ssa.Function, depth int) acq
	summarize = func(f *ssa.Function, depth int) acq {
		if a, ok := memo[f]; ok {
			return a
		}
		a := acq{}
		memo[f] = a
		if depth <= 0 {
			return a
		}
		allInstrs(f, func(in ssa.Instruction) {
			if w := lockOf(in); w != "" {
				if _, isDefer := in.(*ssa.Defer); !isDefer {
					if _, ok := a[w]; !ok {
						a[w] = p.fname(f)
					}
				}
				return
			}
			for _, g := range calleesOf(f, in) {
				for w, chain := range summarize(g, depth-1) {
					if _, ok := a[w]; !ok {
						a[w] = p.fname(f) + " -> " + chain
					}
				}
			}
		})
		return a
	}
	var ws []string
	for w := range words {
		ws = append(ws, w)
	}
	sort.Strings(ws)
	edges := map[string]map[string]string{} // held -> acquired -> witness
	nSites := 0
	for _, w := range ws {
		rg := p.mutexRegion(w)
		for _, f := range p.fnList {
			if len(findInstrs(f, M{ID: "acq", F: rg.Acquire})) == 0 {
				continue
			}
			mh := p.mayHeldBefore(f, rg)
			allInstrs(f, func(in ssa.Instruction) {
				if !mh[in] {
					return
				}
				if _, isDefer := in.(*ssa.Defer); isDefer {
					return
				}
				got := acq{}
				if w2 := lockOf(in); w2 != "" {
					got[w2] = p.fname(f)
				}
				for _, g := range calleesOf(f, in) {
					for w2, chain := range summarize(g, 6) {
						if _, ok := got[w2]; !ok {
							got[w2] = chain
						}
					}
				}
				if len(got) == 0 {
					return
				}
				nSites++
				for w2, chain := range got {
					if w2 == w {
						r.fail("R11.12", p.fname(f)+": "+w+" is not acquired again (directly or in a callee) while it may be held", p.ipos(in),
							"self-deadlock: the mutex is not re-entrant; acquired again via %s", chain)
						continue
					}
					if edges[w] == nil {
						edges[w] = map[string]string{}
					}
					if _, ok := edges[w][w2]; !ok {
						edges[w][w2] = p.fname(f) + " at " + p.ipos(in) + " via " + chain
					}
				}
			})
		}
	}
	r.count("R11.12", "calls made while a mutex may be held that acquire further mutexes", nSites, 5)
	// cycles in the acquired-while-held relation
	var order []string
	for a := range edges {
		order = append(order, a)
	}
	sort.Strings(order)
	state := map[string]int{}
	var stack []string
	cyc := ""
	var dfs func(a string)
	dfs = func(a string) {
		state[a] = 1
		stack = append(stack, a)
		var bs []string
		for b := range edges[a] {
			bs = append(bs, b)
		}
		sort.Strings(bs)
		for _, b := range bs {
			if cyc != "" {
				break
			}
			switch state[b] {
			case 0:
				dfs(b)
			case 1:
				for i, x := range stack {
					if x == b {
						cyc = strings.Join(append(append([]string{}, stack[i:]...), b), " -> ")
					}
				}
			}
		}
		stack = stack[:len(stack)-1]
		state[a] = 2
	}
	for _, a := range order {
		if state[a] == 0 && cyc == "" {
			dfs(a)
		}
	}
	nEdges := 0
	for _, m := range edges {
		nEdges += len(m)
	}
	r.ob("R11.12", "the acquired-while-held relation between the package's mutexes has no cycle", "", cyc == "", true, "%d ordered pairs; cycle: %s", nEdges, cyc)
}

// c11DispatcherWaits (R11.13): a writer that met EAGAIN is released only by the process-wide event-loop goroutine
// (R11.9). That goroutine also runs the wire handlers and the posted functions, which take some of the package's
// mutexes ("event-loop mutexes": computed from the call graph, roots = handleEvent, runLambda and every function
// handed to post). Whoever may hold such a mutex must therefore not reach (through static callees and VTA-resolved
// interface calls, `go` excluded) a wait for the write-ready signal: the event loop may be waiting for that very mutex.
func c11DispatcherWaits(p *P, r *R) {
	cg := p.callGraph()
	callees := func(f *ssa.Function, in ssa.Instruction) []*ssa.Function {
		if _, isGo := in.(*ssa.Go); isGo {
			return nil
		}
		if g := p.localCallee(in); g != nil {
			return []*ssa.Function{g}
		}
		if callCommon(in) == nil {
			return nil
		}
		var out []*ssa.Function
		if nd := cg.Nodes[f]; nd != nil {
			for _, e := range nd.Out {
				if e.Site == in && e.Callee.Func.Pkg == p.Pkg && e.Callee.Func.Blocks != nil {
					out = append(out, e.Callee.Func)
				}
			}
		}
		return out
	}
	var roots []*ssa.Function
	for _, n := range []string{"(*connEventHandler).handleEvent", "(*epollDispatcher).runLambda"} {
		if f := p.fn(n); f != nil {
			roots = append(roots, f)
		} else {
			r.fail("R11.13", "anchor "+n, "", "not found")
		}
	}
	for _, f := range p.fnList {
		allInstrs(f, func(in ssa.Instruction) {
			if c, ok := in.(*ssa.Call); ok && c.Call.IsInvoke() && c.Call.Method.Name() == "post" {
				roots = append(roots, closureArgs(in)...)
			}
		})
	}
	drun := map[*ssa.Function]bool{}
	var visit func(f *ssa.Function, d int)
	visit = func(f *ssa.Function, d int) {
		if drun[f] || d < 0 {
			return
		}
		drun[f] = true
		allInstrs(f, func(in ssa.Instruction) {
			for _, g := range callees(f, in) {
				visit(g, d-1)
			}
		})
	}
	for _, rt := range roots {
		visit(rt, 10)
	}
	dlocks := map[string]bool{}
	for f := range drun {
		allInstrs(f, func(in ssa.Instruction) {
			cc := callCommon(in)
			if cc == nil || len(cc.Args) == 0 {
				return
			}
			switch p.calleeName(cc) {
			case "(*sync.Mutex).Lock", "(*sync.RWMutex).Lock", "(*sync.RWMutex).RLock":
				if w := wordOf(cc.Args[0]); w != "" {
					dlocks[w] = true
				}
			}
		})
	}
	r.count("R11.13", "functions run by the event loop", len(drun), 20)
	r.count("R11.13", "mutexes the event loop takes", len(dlocks), 5)
	// the write-ready signal is given by event-loop code (re-verified: otherwise the classification is stale)
	signalled := false
	for f := range drun {
		allInstrs(f, func(in ssa.Instruction) {
			if c, ok := in.(*ssa.Call); ok && p.calleeName(&c.Call) == "asyncNotify" && isLoadOf(c.Call.Args[0], "connEventHandler.onWriteReadyCh") {
				signalled = true
			}
		})
	}
	r.ob("R11.13", "the write-ready channel is signalled by event-loop code", "", signalled, true, "")
	isDWait := func(in ssa.Instruction) bool {
		u, ok := in.(*ssa.UnOp)
		return ok && u.Op == token.ARROW && isLoadOf(u.X, "connEventHandler.onWriteReadyCh")
	}
	memo := map[*ssa.Function]string{}
	var reach func(f *ssa.Function, d int) string
	reach = func(f *ssa.Function, d int) string {
		if v, ok := memo[f]; ok {
			return v
		}
		memo[f] = ""
		if d < 0 {
			return ""
		}
		res := ""
		allInstrs(f, func(in ssa.Instruction) {
			if res != "" {
				return
			}
			if isDWait(in) {
				res = p.fname(f)
				return
			}
			for _, g := range callees(f, in) {
				if c := reach(g, d-1); c != "" {
					res = p.fname(f) + " -> " + c
					return
				}
			}
		})
		memo[f] = res
		return res
	}
	// frozen exceptions: lock | link of the call chain -> why every chain through that link is infeasible
	type dExc struct{ lock, link, why string }
	exceptions := []dExc{
		{"SessionManager.RWMutex", "(*streamPool).close -> (*Stream).Close", "the pool closes its session first; Stream.close returns before notifying the peer when the session is closed (C10 R10.3)"},
		{"SessionManager.RWMutex", "newSession -> (*streamWrapper).Close", "call-graph imprecision: conn.Close() in newSession is a net.Conn method, resolved also to streamWrapper.Close; the conn of a client session is a dialled socket"},
	}
	var ws []string
	for w := range dlocks {
		ws = append(ws, w)
	}
	sort.Strings(ws)
	n := 0
	for _, w := range ws {
		rg := p.mutexRegion(w)
		for _, f := range p.fnList {
			if len(findInstrs(f, M{ID: "acq", F: rg.Acquire})) == 0 {
				continue
			}
			mh := p.mayHeldBefore(f, rg)
			allInstrs(f, func(in ssa.Instruction) {
				if !mh[in] {
					return
				}
				if _, isD := in.(*ssa.Defer); isD {
					return
				}
				for _, g := range callees(f, in) {
					chain := reach(g, 10)
					if chain == "" {
						continue
					}
					n++
					full := p.fname(f) + " -> " + chain
					reason, ok := "", false
					for _, e := range exceptions {
						if e.lock == w && strings.Contains(full, e.link) {
							reason, ok = e.why, true
						}
					}
					r.ob("R11.13", p.fname(f)+": while "+w+" (needed by the event loop) may be held, the call of "+p.fname(g)+" does not reach a wait for the event loop's write-ready signal", p.ipos(in), ok, true,
						"chain: %s; %s", chain, reason)
				}
			})
		}
	}
	// side condition of the pool exception: the session is closed before the pooled streams
	if pc := p.fn("(*streamPool).close"); pc != nil {
		okOrder := false
		for _, sc := range findInstrs(pc, p.mCall("(*Session).Close")) {
			all := true
			for _, st := range findInstrs(pc, p.mCall("(*Stream).Close")) {
				if !p.reaches(sc, st, nil) || p.reaches(st, sc, nil) {
					all = false
				}
			}
			okOrder = okOrder || all
		}
		r.ob("R11.13", "(*streamPool).close: the pool's session is closed before its pooled streams (side condition of the exception)", p.pos(pc.Pos()), okOrder, true, "")
	}
	_ = n
}

// c11LocksReleased (R11.14): every function that acquires one of the package's mutexes releases it on every exit
// (explicitly on each path, or by a deferred release) and never acquires it again while it may still hold it.
func c11LocksReleased(p *P, r *R) {
	words := map[string]bool{}
	for _, f := range p.fnList {
		allInstrs(f, func(in ssa.Instruction) {
			cc := callCommon(in)
			if cc == nil || len(cc.Args) == 0 {
				return
			}
			switch p.calleeName(cc) {
			case "(*sync.Mutex).Lock", "(*sync.RWMutex).Lock", "(*sync.RWMutex).RLock":
				if w := wordOf(cc.Args[0]); w != "" {
					words[w] = true
				}
			}
		})
	}
	var ws []string
	for w := range words {
		ws = append(ws, w)
	}
	sort.Strings(ws)
	n := 0
	for _, w := range ws {
		rg := p.mutexRegion(w)
		for _, f := range p.fnList {
			acqs := findInstrs(f, M{ID: "acq", F: rg.Acquire})
			if len(acqs) == 0 {
				continue
			}
			if len(f.Blocks) == 1 && len(acqs) == 1 && len(findInstrs(f, M{ID: "rel", F: rg.Release})) == 0 {
				continue // a lock wrapper returns with the mutex held by design; its callers are judged (the call is an acquire)
			}
			n++
			mh := p.mayHeldBefore(f, rg)
			def := p.deferredRelease(f, rg)
			okExit, okDouble := true, true
			where := ""
			for _, ret := range returnsOf(f) {
				if f.Recover != nil && ret.Block() == f.Recover {
					continue
				}
				if mh[ret] && !def {
					okExit, where = false, p.ipos(ret)
				}
			}
			for _, li := range acqs {
				if _, isD := li.(*ssa.Defer); !isD && mh[li] {
					okDouble, where = false, p.ipos(li)
				}
			}
			r.ob("R11.14", p.fname(f)+": "+w+" is released on every exit", p.pos(f.Pos()), okExit, true, "an exit that keeps the mutex blocks every later user for ever: %s", where)
			r.ob("R11.14", p.fname(f)+": "+w+" is not acquired while it may still be held", p.pos(f.Pos()), okDouble, true, "%s", where)
		}
	}
	r.count("R11.14", "function/mutex pairs", n, 20)
}
