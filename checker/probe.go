package main

import (
	"fmt"
	"go/token"
	"os"
	"strings"

	"golang.org/x/tools/go/ssa"
)

// probe prints internal extraction results (development aid; not used by any registered check).
func probe(what, repo string) {
	p, err := loadConfig(repo, cfgDefault)
	if err != nil {
		fmt.Println(err)
		os.Exit(2)
	}
	if pf, ok := probes[what]; ok {
		pf(p)
		return
	}
	switch what {
	case "raw":
		for _, f := range p.fnList {
			as := rawAccesses(f)
			if len(as) == 0 {
				continue
			}
			fmt.Printf("%-50s %s\n", p.fname(f), accSet(as, nil))
		}
	}
}

func init() { probes["block"] = probeBlocking }

var probes = map[string]func(p *P){}

func probeBlocking(p *P) {
	for _, f := range p.fnList {
		allInstrs(f, func(in ssa.Instruction) {
			switch x := in.(type) {
			case *ssa.Select:
				var chs []string
				for _, st := range x.States {
					d := "recv"
					if st.Dir == 1 {
						d = "send"
					}
					chs = append(chs, d+":"+chanName(p, st.Chan))
				}
				fmt.Printf("%-45s select blocking=%v %v  %s\n", p.fname(f), x.Blocking, chs, p.ipos(in))
			case *ssa.Send:
				fmt.Printf("%-45s SEND %s  %s\n", p.fname(f), chanName(p, x.Chan), p.ipos(in))
			case *ssa.UnOp:
				if x.Op == token.ARROW {
					fmt.Printf("%-45s RECV %s  %s\n", p.fname(f), chanName(p, x.X), p.ipos(in))
				}
			case *ssa.Call:
				n := p.calleeName(&x.Call)
				if n == "(*sync.WaitGroup).Wait" || n == "time.Sleep" || n == "(*sync.Cond).Wait" {
					fmt.Printf("%-45s %s  %s\n", p.fname(f), n, p.ipos(in))
				}
			}
		})
	}
}

func chanName(p *P, v ssa.Value) string {
	if fa, ok := loadOfField(v); ok {
		return fieldKey(fa)
	}
	switch x := v.(type) {
	case *ssa.Call:
		if x.Call.IsInvoke() {
			return "invoke:" + x.Call.Method.Name() + "()"
		}
		return "call:" + p.calleeName(&x.Call)
	case *ssa.Phi:
		var es []string
		for _, e := range x.Edges {
			es = append(es, chanName(p, e))
		}
		return "phi(" + strings.Join(es, "|") + ")"
	case *ssa.Const:
		return "nil"
	case *ssa.Parameter:
		return "param:" + x.Name()
	case *ssa.ChangeType:
		return chanName(p, x.X)
	case *ssa.MakeChan:
		return "local chan"
	case *ssa.UnOp:
		if al, ok := x.X.(*ssa.Alloc); ok {
			return "local var " + al.Comment
		}
		if fv, ok := x.X.(*ssa.FreeVar); ok {
			return "captured " + fv.Name()
		}
	case *ssa.FreeVar:
		return "captured " + x.Name()
	}
	return "?" + v.Name()
}
