package main

import (
	"fmt"
	"os"
)

// probe prints internal extraction results (development aid; not used by any registered check).
func probe(what, repo string) {
	p, err := loadConfig(repo, cfgDefault)
	if err != nil {
		fmt.Println(err)
		os.Exit(2)
	}
	switch what {
	case "raw":
		for _, f := range p.fnList {
			as := rawAccesses(f)
			if len(as) == 0 {
				continue
			}
			fmt.Printf("%-50s %s\n", p.fname(f), accSet(as, nil))
		}
	}
}
