package main

import (
	"go/ast"
	"go/constant"
	"go/types"
	"sort"
	"strings"

	"golang.org/x/tools/go/ssa"
)

func init() {
	register(&property{
		ID: "C13",
		Explanation: "Decides that no panic site in wire-handling code is reachable with unchecked wire-derived operands: every make/slice/index (and binary.BigEndian access) in the functions that parse control-connection bytes is proven in range from the dominating length checks " +
			"(linear terms over wire atoms, facts from branch edges, inferred callee preconditions, inductive invariant of the event loop with the handlers' consumed-bytes postcondition); the handler dispatch is guarded (valid header, index in table, non-nil entry); handshake handlers run only after a message-type test; " +
			"optional Session pointers (manager, listener, monitor, listenCallback) are nil-checked before every dereference; handlers are restartable (no side effect before an 'incomplete, stop' return); a handler error ends only the session (exitErr -> Close; no panic/os.Exit in scope). " +
			"NOT decided: panics with no wire-dependent operand outside this scope (OOM, nil map writes: see C14), semantic equality of chunked vs unchunked delivery beyond restartability. The interval domain is deliberately weak: an unprovable but safe site is reported as UNPROVEN (fails closed).",
		RuleText: "R13.1 guards of the table dispatch + message-type matrix + handshake handler guards; R13.2 one obligation per bound of every make/slice/index/BigEndian call in scope functions (roots: table-shaped handlers, handleEvents, protocolInitializer implementations, getProtocolInitializer; plus reachable callees taking header/[]byte), proved by the linear-fact engine; R13.3 postcondition 0<=n<=headerSize+len(buf) per handler return; R13.4 per dereference of an optional Session pointer; R13.5 per stop-return; R13.6 error containment; R13.7 receive-window discipline of the event connection (shared with C18 R18.4): the outcome must not depend on how bytes were split into reads.",
		Run:      runC13,
	})
}

func hasWireParam(f *ssa.Function) bool {
	for _, prm := range f.Params {
		if namedName(prm.Type()) == "header" || isByteSlice(prm.Type()) {
			return true
		}
	}
	return false
}

func returnsWire(f *ssa.Function) bool {
	res := f.Signature.Results()
	for i := 0; i < res.Len(); i++ {
		if namedName(res.At(i).Type()) == "header" || isByteSlice(res.At(i).Type()) {
			return true
		}
	}
	return false
}

// implementers of the protocolInitializer interface
func (p *P) initializerMethods() []*ssa.Function {
	var out []*ssa.Function
	obj := p.TPkg.Scope().Lookup("protocolInitializer")
	if obj == nil {
		return nil
	}
	iface, ok := obj.Type().Underlying().(*types.Interface)
	if !ok {
		return nil
	}
	for _, name := range p.TPkg.Scope().Names() {
		tn, ok := p.TPkg.Scope().Lookup(name).(*types.TypeName)
		if !ok {
			continue
		}
		pt := types.NewPointer(tn.Type())
		if types.IsInterface(tn.Type()) || !types.Implements(pt, iface) {
			continue
		}
		ms := p.Prog.MethodSets.MethodSet(pt)
		for i := 0; i < ms.Len(); i++ {
			if f := p.Prog.MethodValue(ms.At(i)); f != nil && f.Pkg == p.Pkg && f.Synthetic == "" {
				out = append(out, f)
			}
		}
	}
	return out
}

func (p *P) reachLocal(roots []*ssa.Function, cut func(*ssa.Function) bool) map[*ssa.Function]bool {
	seen := map[*ssa.Function]bool{}
	var visit func(f *ssa.Function)
	visit = func(f *ssa.Function) {
		if f == nil || seen[f] || f.Blocks == nil || f.Pkg != p.Pkg {
			return
		}
		seen[f] = true
		if cut != nil && cut(f) {
			return
		}
		allInstrs(f, func(in ssa.Instruction) {
			if g := p.localCallee(in); g != nil {
				visit(g)
			}
			for _, g := range closureArgs(in) {
				visit(g)
			}
			if mc, ok := in.(*ssa.MakeClosure); ok {
				if g, ok := mc.Fn.(*ssa.Function); ok {
					visit(g)
				}
			}
		})
	}
	for _, r := range roots {
		visit(r)
	}
	return seen
}

func (p *P) wireScope() (roots, scope []*ssa.Function) {
	roots = append(roots, p.wireHandlers()...)
	for _, n := range []string{"(*Session).handleEvents", "(*Session).onEventData", "(*protocolAdaptor).getProtocolInitializer"} {
		if f := p.fn(n); f != nil {
			roots = append(roots, f)
		}
	}
	roots = append(roots, p.initializerMethods()...)
	// the wire scope ends where control-connection bytes are left for the shared-memory mappings:
	// functions that mmap (their layout code is C03's subject) are not entered.
	mmap := p.mCall("golang.org/x/sys/unix.Mmap", "syscall.Mmap")
	reach := p.reachLocal(roots, func(f *ssa.Function) bool { return len(findInstrs(f, mmap)) > 0 })
	isRoot := map[*ssa.Function]bool{}
	for _, r := range roots {
		isRoot[r] = true
	}
	for _, f := range p.fnList {
		if !reach[f] {
			continue
		}
		if isRoot[f] || hasWireParam(f) || returnsWire(f) || (f.Signature.Recv() != nil && namedName(f.Signature.Recv().Type()) == "header") {
			scope = append(scope, f)
		}
	}
	return
}

func runC13(p *P, r *R) {
	roots, scope := p.wireScope()
	r.role("wire roots", p.names(roots))
	r.role("wire scope (bounds analysis)", p.names(scope))
	handlers := p.wireHandlers()
	r.count("R13.2", "table-shaped wire handlers", len(handlers), 4)
	r.count("R13.2", "functions in the wire scope", len(scope), 15)
	he := p.fn("(*Session).handleEvents")
	if he == nil {
		r.fail("R13.1", "anchor (*Session).handleEvents", "", "function not found")
		return
	}

	// ---- R13.2 / R13.3 bounds
	ba := &boundsAnalysis{p: p, scope: scope, inScope: map[*ssa.Function]bool{}, handlers: handlers}
	for _, f := range scope {
		ba.inScope[f] = true
	}
	ba.run()
	seq := map[string]int{}
	for _, o := range ba.obs {
		fn := p.fname(o.fn)
		k := fn + ": " + describeOp(p, o.in) + " — " + o.what
		seq[k]++
		key := k
		if seq[k] > 1 {
			key = k + " #" + itoa(int64(seq[k]))
		}
		detail := ""
		if !o.proven {
			detail = "UNPROVEN: cannot derive [" + o.goal.String() + " <= 0] from the dominating checks"
		}
		r.ob("R13.2", key, p.ipos(o.in), o.proven, true, "%s", detail)
	}
	r.count("R13.2", "bounds obligations", len(ba.obs), 40)
	// preconditions of roots cannot be discharged by anybody
	for _, f := range roots {
		if inFns(f, handlers) {
			continue // discharged at the table call in handleEvents
		}
		for _, rq := range ba.requires[f] {
			r.fail("R13.2", p.fname(f)+": entry point relies on an unchecked length ["+rq.String()+" <= 0]", p.pos(f.Pos()), "a root of the wire scope has an inferred precondition nobody establishes")
		}
	}
	var reqNotes []string
	for f, rqs := range ba.requires {
		for _, rq := range rqs {
			reqNotes = append(reqNotes, p.fname(f)+" requires ["+rq.String()+" <= 0]")
		}
	}
	sort.Strings(reqNotes)
	for _, n := range reqNotes {
		r.note("inferred precondition: %s (proved at every call site in scope)", n)
	}
	// R13.3 handler postcondition
	hs := ba.headerSize()
	for _, h := range handlers {
		c := ba.ctxOf(h)
		var buf *ssa.Parameter
		for _, prm := range h.Params {
			if isByteSlice(prm.Type()) && namedName(prm.Type()) != "header" {
				buf = prm
			}
		}
		for i, ret := range returnsOf(h) {
			if h.Recover != nil && ret.Block() == h.Recover {
				continue
			}
			v := resultOf(ret, 0)
			t, ok := c.term(v)
			okPost := false
			if ok && buf != nil {
				bl, _ := c.lenTerm(buf)
				lo := c.prove(t.neg(), ret.Block())
				hi := c.prove(t.add(bl, -1).add(linConst(hs), -1), ret.Block())
				okPost = lo && hi
			}
			r.ob("R13.3", p.fname(h)+": return #"+itoa(int64(i+1))+" reports 0 <= consumed <= headerSize+len(buf)", p.ipos(ret), okPost, true,
				"commitRead(consumed) must never move past the bytes actually buffered")
		}
	}

	c13VersionIndex(p, r)
	c13Dispatch(p, r, he, handlers)
	c13Handshake(p, r)
	c13Optional(p, r)
	c13Restartable(p, r, handlers)
	c13Containment(p, r, scope)
	// R13.7 chunk independence on the receiving buffer: events already consumed are never presented again and
	// pending bytes are never dropped, however the reads were cut (window discipline of the event connection,
	// shared with C18 R18.4)
	c18Window(p, r, "R13.7")
	// R13.8 the effect of an event does not depend on how the bytes were split into reads: nothing keeps a reference
	// into the connection's reused read buffer beyond the event (shared with C06 R06.5 / C18 R18.6)
	noEscapeOfEventBuffer(p, r, "R13.8")
}

func describeOp(p *P, in ssa.Instruction) string {
	switch x := in.(type) {
	case *ssa.MakeSlice:
		return "make"
	case *ssa.Slice:
		return "slice of " + shortVal(x.X)
	case *ssa.IndexAddr:
		return "index of " + shortVal(x.X)
	case *ssa.Index:
		return "index of " + shortVal(x.X)
	case *ssa.Call:
		return "call " + p.calleeName(&x.Call)
	}
	return "op"
}

func shortVal(v ssa.Value) string {
	switch x := v.(type) {
	case *ssa.Parameter:
		return x.Name()
	case *ssa.ChangeType:
		return shortVal(x.X)
	case *ssa.UnOp:
		if g, ok := x.X.(*ssa.Global); ok {
			return g.Name()
		}
		if fa, ok := x.X.(*ssa.FieldAddr); ok {
			return fieldKey(fa)
		}
	case *ssa.MakeSlice:
		return "made buffer"
	case *ssa.Slice:
		return "sub-slice of " + shortVal(x.X)
	case *ssa.Alloc:
		return "local " + strings.TrimPrefix(types.TypeString(derefType(x.Type()), func(*types.Package) string { return "" }), ".")
	}
	return "value"
}

// R13.1 dispatch guards + matrix
func c13Dispatch(p *P, r *R, he *ssa.Function, handlers []*ssa.Function) {
	n := 0
	allInstrs(he, func(in ssa.Instruction) {
		call, ok := in.(*ssa.Call)
		if !ok || call.Call.StaticCallee() != nil || call.Call.IsInvoke() {
			return
		}
		if _, isB := call.Call.Value.(*ssa.Builtin); isB {
			return
		}
		ld, ok := call.Call.Value.(*ssa.UnOp)
		if !ok {
			return
		}
		ia, ok := ld.X.(*ssa.IndexAddr)
		if !ok || shortVal(ia.X) != "protocolHandlers" {
			return
		}
		n++
		// (i) header validated
		okValid := false
		for _, f := range factsAt(call.Block()) {
			isChk := func(v ssa.Value) bool {
				c, ok := v.(*ssa.Call)
				return ok && p.calleeName(&c.Call) == "checkEventValid"
			}
			// `if err = checkEventValid(h); err != nil` : the stored err may be spilled; accept the call value or a phi/extract of it
			if rel := relOn(f.Cond, f.Truth, func(v ssa.Value) bool { return derivedFrom(v, isChk, 2) }, isNilConst); rel == "==" {
				okValid = true
			}
		}
		r.ob("R13.1", "handleEvents: table dispatch only after checkEventValid succeeded", p.ipos(call), okValid, true, "")
		// (iii) entry non-nil
		okNil := false
		for _, f := range factsAt(call.Block()) {
			isEntry := func(v ssa.Value) bool {
				u, ok := v.(*ssa.UnOp)
				if !ok {
					return false
				}
				ia2, ok := u.X.(*ssa.IndexAddr)
				return ok && shortVal(ia2.X) == "protocolHandlers" && sameExpr(ia2.Index, ia.Index, 3)
			}
			if relOn(f.Cond, f.Truth, isEntry, isNilConst) == "!=" {
				okNil = true
			}
		}
		r.ob("R13.1", "handleEvents: table entry is nil-checked before it is called", p.ipos(call), okNil, true, "")
		// (ii) index range: covered by R13.2's index obligations on protocolHandlers
	})
	r.count("R13.1", "table dispatch sites in handleEvents", n, 1)

	// matrix: eventType constants vs table keys
	type kv struct {
		name string
		val  int64
	}
	var consts []kv
	for _, name := range p.TPkg.Scope().Names() {
		c, ok := p.TPkg.Scope().Lookup(name).(*types.Const)
		if !ok || namedName(c.Type()) != "eventType" || !strings.HasPrefix(name, "type") {
			continue
		}
		v, _ := constant.Int64Val(constant.ToInt(c.Val()))
		consts = append(consts, kv{name, v})
	}
	sort.Slice(consts, func(i, j int) bool { return consts[i].val < consts[j].val })
	tableKeys := map[string]string{}
	for _, file := range p.Files {
		ast.Inspect(file, func(nd ast.Node) bool {
			vs, ok := nd.(*ast.ValueSpec)
			if !ok || len(vs.Names) != 1 || vs.Names[0].Name != "protocolHandlers" || len(vs.Values) != 1 {
				return true
			}
			cl, ok := vs.Values[0].(*ast.CompositeLit)
			if !ok {
				return true
			}
			for _, e := range cl.Elts {
				if kve, ok := e.(*ast.KeyValueExpr); ok {
					k, _ := kve.Key.(*ast.Ident)
					v, _ := kve.Value.(*ast.Ident)
					if k != nil && v != nil {
						tableKeys[k.Name] = v.Name
					}
				}
			}
			return true
		})
	}
	r.count("R13.1", "protocolHandlers table entries", len(tableKeys), 4)
	minV, _ := p.pkgConstInt("minEventType")
	maxV, _ := p.pkgConstInt("maxEventType")
	// handshake-only types must be referenced by handshake code (comparison or waitEventHeader argument)
	refd := map[int64]bool{}
	for _, f := range p.fnList {
		if inFns(f, handlers) {
			continue
		}
		allInstrs(f, func(in ssa.Instruction) {
			for _, op := range in.Operands(nil) {
				if c, ok := (*op).(*ssa.Const); ok && namedName(c.Type()) == "eventType" {
					if v, ok := constInt(c); ok {
						switch in.(type) {
						case *ssa.BinOp, *ssa.Call:
							refd[v] = true
						}
					}
				}
			}
		})
	}
	var matrix []string
	for _, c := range consts {
		h, inTable := tableKeys[c.name]
		cell := c.name + "=" + itoa(c.val)
		if inTable {
			cell += " -> " + h
			f := p.fn(h)
			r.ob("R13.1", "table entry "+c.name+" is a handler with the table signature", "", f != nil && inFns(f, handlers), false, "")
		} else {
			cell += " (handshake only)"
			r.ob("R13.1", "message type "+c.name+" has no table entry and is consumed by the handshake code", "", refd[c.val], true,
				"a type that neither the table nor the handshake knows is dead protocol surface")
		}
		r.ob("R13.1", "message type "+c.name+" lies in [minEventType,maxEventType]", "", c.val >= minV && c.val <= maxV, false, "checkEventValid would reject it otherwise")
		matrix = append(matrix, cell)
	}
	r.note("message type matrix: %s", strings.Join(matrix, "; "))
}

// handshake handlers: func(s *Session, h header) error — must be called under a MsgType test of h.
func c13Handshake(p *P, r *R) {
	var hh []*ssa.Function
	for _, f := range p.fnList {
		sig := f.Signature
		if f.Parent() == nil && sig.Recv() == nil && sig.Params().Len() == 2 && sig.Results().Len() == 1 &&
			namedName(sig.Params().At(0).Type()) == "Session" && namedName(sig.Params().At(1).Type()) == "header" {
			hh = append(hh, f)
		}
	}
	r.role("handshake handlers", p.names(hh))
	r.count("R13.1", "handshake handlers", len(hh), 3)
	n := 0
	for _, f := range p.fnList {
		for _, h := range hh {
			for _, ci := range findInstrs(f, p.mCall(p.fname(h))) {
				n++
				call := ci.(*ssa.Call)
				harg := call.Call.Args[1]
				ok := false
				for _, fct := range factsAt(call.Block()) {
					isMT := func(v ssa.Value) bool {
						c, okc := stripConv(v).(*ssa.Call)
						return okc && p.calleeName(&c.Call) == "(header).MsgType" && sameExpr(c.Call.Args[0], harg, 4)
					}
					isC := func(v ssa.Value) bool { _, okc := constInt(v); return okc }
					if relOn(fct.Cond, fct.Truth, isMT, isC) == "==" {
						ok = true
					}
				}
				r.ob("R13.1", p.fname(f)+": calls "+p.fname(h)+" only after testing the header's message type", p.ipos(call), ok, true,
					"a handshake handler must not interpret a header of another type (wrong phase / direction)")
			}
		}
	}
	r.count("R13.1", "handshake handler call sites", n, 3)
	// headers read from the connection are validated before they are returned
	for _, f := range p.fnList {
		if f.Signature.Results().Len() != 2 || namedName(f.Signature.Results().At(0).Type()) != "header" {
			continue
		}
		if len(p.sitesMay(f, p.mCall("blockReadFull"), 2)) == 0 {
			continue
		}
		chk := p.mCall("checkEventValid")
		for _, ret := range returnsOf(f) {
			v := resultOf(ret, 0)
			if isNilConst(v) {
				continue
			}
			res := false
			for _, ci := range p.sitesMay(f, chk, 2) {
				if instrDominates(ci, ret) {
					res = true
				}
			}
			r.ob("R13.1", p.fname(f)+": a header read from the connection is validated before it is returned", p.ipos(ret), res, true, "")
		}
	}
}

// R13.4 optional pointers
func c13Optional(p *P, r *R) {
	optional := map[string]bool{"Session.manager": true, "Session.listener": true, "Session.monitor": true, "Config.listenCallback": true}
	n := 0
	for _, f := range p.fnList {
		fn := p.fname(f)
		allInstrs(f, func(in ssa.Instruction) {
			ld, ok := in.(*ssa.UnOp)
			if !ok {
				return
			}
			fa, ok := ld.X.(*ssa.FieldAddr)
			if !ok || !optional[fieldKey(fa)] {
				return
			}
			key := fieldKey(fa)
			refs := ld.Referrers()
			if refs == nil {
				return
			}
			for _, ref := range *refs {
				deref := false
				switch u := ref.(type) {
				case *ssa.FieldAddr:
					deref = u.X == ssa.Value(ld)
				case *ssa.Call:
					if u.Call.IsInvoke() && u.Call.Value == ssa.Value(ld) {
						deref = true
					} else if len(u.Call.Args) > 0 && u.Call.Args[0] == ssa.Value(ld) && u.Call.Signature().Recv() != nil {
						deref = true // method call with the pointer as receiver: its body dereferences
					}
				case *ssa.UnOp:
					deref = u.X == ssa.Value(ld)
				}
				if !deref {
					continue
				}
				n++
				isFld := func(v ssa.Value) bool { return isLoadOf(v, key) }
				guarded := false
				check := func(b *ssa.BasicBlock) {
					for _, fct := range factsAt(b) {
						if relOn(fct.Cond, fct.Truth, isFld, isNilConst) == "!=" {
							guarded = true
						}
					}
				}
				check(ref.Block())
				// closure: accept a guard dominating the closure's creation in the parent
				for g := f; !guarded && g.Parent() != nil; g = g.Parent() {
					allInstrs(g.Parent(), func(pi ssa.Instruction) {
						if mc, ok := pi.(*ssa.MakeClosure); ok && mc.Fn == ssa.Value(g) {
							check(mc.Block())
						}
					})
				}
				r.ob("R13.4", fn+": dereference of optional "+key+" is nil-checked", p.ipos(ref), guarded, true,
					"%s is not set for every session (only by SessionManager / Listener / configuration); an event or call reaching this site on a session without it panics", key)
			}
		})
	}
	r.count("R13.4", "dereferences of optional pointers", n, 5)
}

// R13.5 restartable handlers
func c13Restartable(p *P, r *R, handlers []*ssa.Function) {
	pure := map[string]bool{"builtin:len": true, "builtin:cap": true, "(header).Length": true, "(header).Version": true, "(header).MsgType": true, "(header).Magic": true,
		"(encoding/binary.bigEndian).Uint16": true, "(encoding/binary.bigEndian).Uint32": true, "(encoding/binary.bigEndian).Uint64": true}
	n := 0
	for _, h := range handlers {
		fn := p.fname(h)
		for _, ret := range returnsOf(h) {
			if h.Recover != nil && ret.Block() == h.Recover {
				continue // only reached after a recovered panic
			}
			stop, ok := resultOf(ret, 1).(*ssa.Const)
			if !ok || stop.Value == nil || stop.Value.String() != "true" {
				// a non-constant stop flag cannot be classified
				if _, isC := resultOf(ret, 1).(*ssa.Const); !isC {
					r.fail("R13.5", fn+": stop flag is not a constant", p.ipos(ret), "cannot classify the return")
				}
				continue
			}
			n++
			cz, okz := constInt(resultOf(ret, 0))
			r.ob("R13.5", fn+": an 'incomplete, stop' return consumes nothing", p.ipos(ret), okz && cz == 0, true, "handleEvents must leave the cursor at the header start so the event is re-parsed when more bytes arrive")
			bad := ""
			allInstrs(h, func(in ssa.Instruction) {
				if bad != "" || !(in == ssa.Instruction(ret) || p.reaches(in, ret, nil)) {
					return
				}
				switch x := in.(type) {
				case *ssa.Store:
					if _, local := x.Addr.(*ssa.Alloc); !local {
						bad = "store at " + p.ipos(in)
					}
				case *ssa.Call:
					if !pure[p.calleeName(&x.Call)] {
						bad = "call " + p.calleeName(&x.Call) + " at " + p.ipos(in)
					}
				case *ssa.Go, *ssa.Defer, *ssa.Send, *ssa.MapUpdate:
					bad = "effect at " + p.ipos(in)
				}
			})
			r.ob("R13.5", fn+": no side effect precedes an 'incomplete, stop' return", p.ipos(ret), bad == "", true,
				"an effect before the length check is repeated when the rest of the event arrives in a later read (%s)", bad)
		}
	}
	r.count("R13.5", "'incomplete, stop' returns", n, 3)
}

// R13.6 containment
func c13Containment(p *P, r *R, scope []*ssa.Function) {
	od := p.fn("(*Session).onEventData")
	ee := p.fn("(*Session).exitErr")
	if od == nil || ee == nil {
		r.fail("R13.6", "anchors onEventData/exitErr", "", "functions not found")
		return
	}
	ok := false
	for _, ci := range findInstrs(od, p.mCall("(*Session).exitErr")) {
		isErr := func(v ssa.Value) bool {
			e, okx := v.(*ssa.Extract)
			if !okx || e.Index != 1 {
				return false
			}
			c, okc := e.Tuple.(*ssa.Call)
			return okc && p.calleeName(&c.Call) == "(*Session).handleEvents"
		}
		for _, fct := range factsAt(ci.Block()) {
			if relOn(fct.Cond, fct.Truth, isErr, isNilConst) == "!=" {
				ok = true
			}
		}
	}
	r.ob("R13.6", "onEventData: a handler error ends the session through exitErr", p.pos(od.Pos()), ok, true, "")
	r.ob("R13.6", "exitErr always closes the session", p.pos(ee.Pos()), p.must(ee, p.mCall("(*Session).Close"), 1), true, "")
	// commitRead is called with what handleEvents consumed
	okCommit := false
	allInstrs(od, func(in ssa.Instruction) {
		if c, okc := in.(*ssa.Call); okc && c.Call.IsInvoke() && c.Call.Method.Name() == "commitRead" {
			if e, oke := c.Call.Args[0].(*ssa.Extract); oke && e.Index == 0 {
				if hc, okh := e.Tuple.(*ssa.Call); okh && p.calleeName(&hc.Call) == "(*Session).handleEvents" {
					okCommit = true
				}
			}
		}
	})
	r.ob("R13.6", "onEventData: commitRead receives exactly the byte count handleEvents returned", p.pos(od.Pos()), okCommit, true, "")
	bad := 0
	for _, f := range scope {
		allInstrs(f, func(in ssa.Instruction) {
			switch x := in.(type) {
			case *ssa.Panic:
				if mi, ok := x.X.(*ssa.MakeInterface); ok {
					if cs, ok := mi.X.(*ssa.Const); ok && cs.Value != nil && strings.Contains(cs.Value.String(), "blocking select matched no case") {
						return // synthetic, unreachable
					}
				}
				bad++
				r.fail("R13.6", p.fname(f)+": explicit panic in wire-handling code", p.ipos(in), "")
			case *ssa.Call:
				n := p.calleeName(&x.Call)
				if n == "os.Exit" || strings.HasPrefix(n, "log.Fatal") || strings.HasPrefix(n, "log.Panic") {
					bad++
					r.fail("R13.6", p.fname(f)+": process-terminating call "+n+" in wire-handling code", p.ipos(in), "")
				}
			}
		})
	}
	r.ob("R13.6", "no panic / os.Exit / log.Fatal in the wire scope", "", bad == 0, false, "%d found", bad)
}

// R13.2 (array part): pollingEventWithVersion[s.communicationVersion] — the index is a field, so the
// join of every value stored to that field must stay below the array length.
func c13VersionIndex(p *P, r *R) {
	var arrLen int64 = -1
	if g, ok := p.Pkg.Members["pollingEventWithVersion"].(*ssa.Global); ok {
		if at, ok := derefType(g.Type()).Underlying().(*types.Array); ok {
			arrLen = at.Len()
		}
	}
	if arrLen < 0 {
		r.fail("R13.2", "anchor pollingEventWithVersion array", "", "global array not found")
		return
	}
	nIdx := 0
	byField := false
	for _, f := range p.fnList {
		allInstrs(f, func(in ssa.Instruction) {
			ia, ok := in.(*ssa.IndexAddr)
			if !ok {
				return
			}
			g, ok := ia.X.(*ssa.Global)
			if !ok || g.Name() != "pollingEventWithVersion" {
				return
			}
			if strings.HasPrefix(f.Name(), "init") {
				return // the initialiser loop is bounded by the array's own length constant
			}
			nIdx++
			if isLoadOf(ia.Index, "Session.communicationVersion") {
				byField = true
				return
			}
			if c, ok := constInt(ia.Index); ok && c >= 0 && c < arrLen {
				return
			}
			r.fail("R13.2", p.fname(f)+": index of pollingEventWithVersion is neither the negotiated version field nor a constant", p.ipos(in), "UNPROVEN")
		})
	}
	r.count("R13.2", "uses of pollingEventWithVersion[...]", nIdx, 1)
	if !byField {
		return
	}
	bounded := func(v ssa.Value) (bool, string) {
		v = stripConv(v)
		if c, ok := constInt(v); ok {
			return c >= 0 && c < arrLen, "constant " + itoa(c)
		}
		if call, ok := v.(*ssa.Call); ok {
			if call.Call.IsInvoke() && call.Call.Method.Name() == "Version" {
				okAll, n := true, 0
				for _, m := range p.initializerMethods() {
					if m.Name() != "Version" {
						continue
					}
					n++
					for _, ret := range returnsOf(m) {
						c, ok := constInt(ret.Results[0])
						if !ok || c < 0 || c >= arrLen {
							okAll = false
						}
					}
				}
				return okAll && n > 0, "protocolInitializer.Version() of " + itoa(int64(n)) + " implementations"
			}
			if detectMinShaped(p)[p.calleeName(&call.Call)] {
				for _, a := range call.Call.Args {
					if c, ok := constInt(a); ok && c >= 0 && c < arrLen {
						return true, "min(…, " + itoa(c) + ")"
					}
				}
			}
		}
		return false, "unbounded value"
	}
	n := 0
	for _, f := range p.fnList {
		for _, si := range findInstrs(f, mStoreWord("Session.communicationVersion")) {
			n++
			ok, why := bounded(si.(*ssa.Store).Val)
			r.ob("R13.2", p.fname(f)+": value stored to Session.communicationVersion stays below len(pollingEventWithVersion)", p.ipos(si), ok, true,
				"%s; the field indexes a [%d]header array when a polling event is sent", why, arrLen)
		}
	}
	r.count("R13.2", "stores to Session.communicationVersion", n, 2)
}
