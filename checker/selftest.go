package main

type mutResult struct {
	Total, Killed, Skipped, Failed int
	Lines                          []string
	FailLines                      []string
}

func (m mutResult) summary() map[string]interface{} {
	return map[string]interface{}{"mutants": m.Total, "killed": m.Killed, "skipped": m.Skipped, "survived": m.Failed, "detail": m.Lines}
}

func runMutants(prop, repo, dir string) mutResult {
	return mutResult{}
}
