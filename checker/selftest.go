package main

import (
	"fmt"
	"io"
	"os"
	"os/exec"
	"path/filepath"
	"regexp"
	"sort"
	"strings"
	"sync"
)

// Mutation self-test (thorough tier): every committed variant under /verif/mutants/<prop>/ is applied to
// a scratch copy of /repo's working tree (outside /repo and /verif, removed at once), the property's
// quick check is run on it in a separate process, and the check must report the expected rule. A
// variant that applies and is not reported means the checker is defective: the run fails with
// SELFTEST-FAILED (no VIOLATION line).

type mutResult struct {
	Total, Killed, Skipped, Failed int
	Lines                          []string
	FailLines                      []string
}

func (m mutResult) summary() map[string]interface{} {
	return map[string]interface{}{"mutants": m.Total, "killed": m.Killed, "skipped": m.Skipped, "survived": m.Failed, "detail": m.Lines}
}

var (
	expectRe = regexp.MustCompile(`(?m)^# expect: (.*)$`)
	whatRe   = regexp.MustCompile(`(?m)^# what: (.*)$`)
)

func copyTree(src, dst string) error {
	ents, err := os.ReadDir(src)
	if err != nil {
		return err
	}
	for _, e := range ents {
		n := e.Name()
		if e.IsDir() {
			continue
		}
		if !(strings.HasSuffix(n, ".go") && !strings.HasSuffix(n, "_test.go")) && n != "go.mod" && n != "go.sum" {
			continue
		}
		in, err := os.Open(filepath.Join(src, n))
		if err != nil {
			return err
		}
		out, err := os.Create(filepath.Join(dst, n))
		if err != nil {
			in.Close()
			return err
		}
		_, err = io.Copy(out, in)
		in.Close()
		out.Close()
		if err != nil {
			return err
		}
	}
	return nil
}

func runOneMutant(prop, repo, patch string) (verdict string, killed, skipped bool) {
	name := strings.TrimSuffix(filepath.Base(patch), ".patch")
	b, err := os.ReadFile(patch)
	if err != nil {
		return name + ": unreadable", false, true
	}
	expect := ""
	if m := expectRe.FindSubmatch(b); m != nil {
		expect = strings.TrimSpace(string(m[1]))
	}
	what := ""
	if m := whatRe.FindSubmatch(b); m != nil {
		what = strings.TrimSpace(string(m[1]))
	}
	tmp, err := os.MkdirTemp("", "shmlint_mut_")
	if err != nil {
		return name + ": no scratch dir", false, true
	}
	defer os.RemoveAll(tmp)
	if err := copyTree(repo, tmp); err != nil {
		return name + ": copy failed: " + err.Error(), false, true
	}
	pc := exec.Command("patch", "-p1", "-s", "-i", patch)
	pc.Dir = tmp
	if out, err := pc.CombinedOutput(); err != nil {
		_ = out
		return fmt.Sprintf("%s: SKIPPED (patch no longer applies: the code it targets was rewritten) [%s]", name, what), false, true
	}
	cmd := exec.Command(os.Args[0], "-prop", prop, "-tier", "quick", "-repo", tmp, "-no-evidence")
	out, err := cmd.CombinedOutput()
	code := 0
	if ee, ok := err.(*exec.ExitError); ok {
		code = ee.ExitCode()
	} else if err != nil {
		return name + ": could not run the checker: " + err.Error(), false, false
	}
	fired := []string{}
	for _, e := range strings.Split(expect, ",") {
		e = strings.TrimSpace(e)
		if e == "" {
			continue
		}
		if regexp.MustCompile(`(?m)^\s+` + regexp.QuoteMeta(e) + `\b`).Match(out) {
			fired = append(fired, e)
		}
	}
	switch {
	case code == 2:
		return fmt.Sprintf("%s: SKIPPED (variant does not load/type-check any more) [%s]", name, what), false, true
	case code == 1 && len(fired) > 0:
		return fmt.Sprintf("%s: killed by %s [%s]", name, strings.Join(fired, ","), what), true, false
	case code == 1:
		return fmt.Sprintf("%s: killed by another rule than the expected %s [%s]", name, expect, what), true, false
	default:
		return fmt.Sprintf("%s: SURVIVED — expected %s to report it [%s]", name, expect, what), false, false
	}
}

func runMutants(prop, repo, dir string) mutResult {
	var res mutResult
	patches, _ := filepath.Glob(filepath.Join(dir, prop, "*.patch"))
	sort.Strings(patches)
	res.Total = len(patches)
	type out struct {
		line            string
		killed, skipped bool
	}
	outs := make([]out, len(patches))
	sem := make(chan struct{}, 4)
	var wg sync.WaitGroup
	for i, pt := range patches {
		wg.Add(1)
		go func(i int, pt string) {
			defer wg.Done()
			sem <- struct{}{}
			defer func() { <-sem }()
			l, k, s := runOneMutant(prop, repo, pt)
			outs[i] = out{l, k, s}
		}(i, pt)
	}
	wg.Wait()
	for _, o := range outs {
		res.Lines = append(res.Lines, o.line)
		switch {
		case o.killed:
			res.Killed++
		case o.skipped:
			res.Skipped++
		default:
			res.Failed++
			res.FailLines = append(res.FailLines, "property="+prop+" "+o.line)
		}
	}
	if res.Total == 0 {
		res.Failed++
		res.FailLines = append(res.FailLines, "property="+prop+" no variants found under "+filepath.Join(dir, prop))
	}
	return res
}

// Silence self-test (thorough tier, only when the tree itself raised no violation): every behaviour-preserving
// variant under /verif/benign is applied to a scratch copy and the property's quick check must stay silent on it. An
// alarm on such a variant means a rule matches too syntactically: the run fails with SELFTEST-FAILED.
func runBenign(prop, repo, dir string) mutResult {
	var res mutResult
	patches, _ := filepath.Glob(filepath.Join(dir, "*.patch"))
	sort.Strings(patches)
	res.Total = len(patches)
	type out struct {
		line            string
		silent, skipped bool
	}
	outs := make([]out, len(patches))
	sem := make(chan struct{}, 6)
	var wg sync.WaitGroup
	for i, pt := range patches {
		wg.Add(1)
		go func(i int, pt string) {
			defer wg.Done()
			sem <- struct{}{}
			defer func() { <-sem }()
			name := strings.TrimSuffix(filepath.Base(pt), ".patch")
			tmp, err := os.MkdirTemp("", "shmlint_ben_")
			if err != nil {
				outs[i] = out{name + ": no scratch dir", false, true}
				return
			}
			defer os.RemoveAll(tmp)
			if err := copyTree(repo, tmp); err != nil {
				outs[i] = out{name + ": copy failed", false, true}
				return
			}
			pc := exec.Command("patch", "-p1", "-s", "-i", pt)
			pc.Dir = tmp
			if _, err := pc.CombinedOutput(); err != nil {
				outs[i] = out{name + ": SKIPPED (patch no longer applies)", false, true}
				return
			}
			cmd := exec.Command(os.Args[0], "-prop", prop, "-tier", "quick", "-repo", tmp, "-no-evidence")
			o, err := cmd.CombinedOutput()
			code := 0
			if ee, ok := err.(*exec.ExitError); ok {
				code = ee.ExitCode()
			}
			switch code {
			case 0:
				outs[i] = out{name + ": silent", true, false}
			case 2:
				outs[i] = out{name + ": SKIPPED (variant does not load)", false, true}
			default:
				first := ""
				for _, l := range strings.Split(string(o), "\n") {
					if strings.HasPrefix(l, "  R") {
						first = strings.TrimSpace(l)
						break
					}
				}
				outs[i] = out{name + ": FALSE ALARM on a behaviour-preserving variant: " + first, false, false}
			}
		}(i, pt)
	}
	wg.Wait()
	for _, o := range outs {
		switch {
		case o.silent:
			res.Killed++
		case o.skipped:
			res.Skipped++
		default:
			res.Failed++
			res.FailLines = append(res.FailLines, "property="+prop+" "+o.line)
			res.Lines = append(res.Lines, o.line)
		}
	}
	return res
}
