package main

import (
	"fmt"
	"go/token"
	"sort"
	"strings"

	"golang.org/x/tools/go/ssa"
)

func init() {
	register(&property{
		ID: "C03",
		Explanation: "Decides writer/reader agreement of the shared-memory layouts: the free-list creator and mapper bind every geometry field (size, cap, head, tail, capPerBuffer) at the same offset and width, " +
			"field extents are disjoint and inside the header-size constant; every raw slot-header access in the package uses the (offset,width) of the named layout constants and carries the right Go-side value; " +
			"buffer-manager header, queue header (amd64 and arm forms) and queue element are written and read at the same offsets; creator and mapper advance by the same size formula and the slot stride equals the header stride; " +
			"creators wire send=low half/recv=high half and mappers the opposite, on both back-ends; every raw access in the buffer layout functions is behind a len(mem) check; pairs are sorted before creation. " +
			"NOT decided: that for every (sizes, percents, capacity) the uint32/uint64 arithmetic yields in-bounds, pairwise disjoint slots (wrap-around; value-level over all inputs), nor sufficiency of the length guards.",
		RuleText: "R03.1 table extraction (unsafe casts and byte indexes: kind@offset/width, bound field, value carried) per function, compared creator<->mapper, writer<->reader and against the layout constants of the package; census of every function with an unsafe cast into a []byte; R03.2 shape of size/stride expressions; R03.3 half wiring in every function that builds a queueManager; R03.4 dominating len() guard per raw access/slice of the mem parameter; R03.5 sort dominates create.",
		Run:      runC03,
	})
}

func sameExpr(a, b ssa.Value, depth int) bool {
	a, b = stripConv(a), stripConv(b)
	if a == b {
		return true
	}
	if depth <= 0 {
		return false
	}
	if ca, ok := constInt(a); ok {
		cb, ok2 := constInt(b)
		return ok2 && ca == cb
	}
	switch x := a.(type) {
	case *ssa.BinOp:
		y, ok := b.(*ssa.BinOp)
		return ok && x.Op == y.Op && sameExpr(x.X, y.X, depth-1) && sameExpr(x.Y, y.Y, depth-1)
	case *ssa.UnOp:
		y, ok := b.(*ssa.UnOp)
		return ok && x.Op == y.Op && sameExpr(x.X, y.X, depth-1)
	case *ssa.FieldAddr:
		y, ok := b.(*ssa.FieldAddr)
		return ok && x.Field == y.Field && sameExpr(x.X, y.X, depth-1)
	case *ssa.Call:
		y, ok := b.(*ssa.Call)
		if !ok || x.Call.IsInvoke() || y.Call.IsInvoke() {
			return false
		}
		bx, okx := x.Call.Value.(*ssa.Builtin)
		by, oky := y.Call.Value.(*ssa.Builtin)
		if okx && oky && bx.Name() == by.Name() && bx.Name() == "len" {
			return sameExpr(x.Call.Args[0], y.Call.Args[0], depth-1)
		}
		// two calls of the same pure function (no stores, no calls, no loads) with the same arguments
		if fx, fy := x.Call.StaticCallee(), y.Call.StaticCallee(); fx != nil && fx == fy && pureArith(fx) && len(x.Call.Args) == len(y.Call.Args) {
			for i := range x.Call.Args {
				if !sameExpr(x.Call.Args[i], y.Call.Args[i], depth-1) {
					return false
				}
			}
			return true
		}
	}
	return false
}

// pureArith: the function only computes on its parameters (no memory access, no calls).
func pureArith(f *ssa.Function) bool {
	if f.Blocks == nil {
		return false
	}
	ok := true
	allInstrs(f, func(in ssa.Instruction) {
		switch x := in.(type) {
		case *ssa.BinOp, *ssa.Convert, *ssa.ChangeType, *ssa.Return, *ssa.If, *ssa.Jump, *ssa.Phi, *ssa.DebugRef:
		case *ssa.UnOp:
			if x.Op == token.MUL || x.Op == token.ARROW {
				ok = false
			}
		default:
			ok = false
		}
	})
	return ok
}

type ext struct {
	name string
	lo   int64
	w    int64
}

func disjointWithin(es []ext, limit int64) (bool, string) {
	sort.Slice(es, func(i, j int) bool { return es[i].lo < es[j].lo })
	for i, e := range es {
		if e.lo < 0 || e.lo+e.w > limit {
			return false, fmt.Sprintf("%s [%d,%d) exceeds the header size %d", e.name, e.lo, e.lo+e.w, limit)
		}
		if i > 0 && es[i-1].lo+es[i-1].w > e.lo {
			return false, fmt.Sprintf("%s [%d,%d) overlaps %s", e.name, e.lo, e.lo+e.w, es[i-1].name)
		}
	}
	return true, ""
}

func runC03(p *P, r *R) {
	cst := func(name string) int64 {
		v, ok := p.pkgConstInt(name)
		if !ok {
			r.fail("R03.1", "layout constant "+name, "", "anchor constant not found")
		}
		return v
	}
	capO, sizeO, startO, nextO, flagO := cst("bufferCapOffset"), cst("bufferSizeOffset"), cst("bufferDataStartOffset"), cst("nextBufferOffset"), cst("bufferFlagOffset")
	H, LH, MH, QH, QE := cst("bufferHeaderSize"), cst("bufferListHeaderSize"), cst("bufferManagerHeaderSize"), cst("queueHeaderLength"), cst("queueElementLen")
	bmCap := cst("bmCapOffset")

	ok, why := disjointWithin([]ext{{"cap", capO, 4}, {"size", sizeO, 4}, {"start", startO, 4}, {"next", nextO, 4}, {"flag", flagO, 1}}, H)
	r.ob("R03.1", "slot header constants: fields disjoint and inside bufferHeaderSize", "", ok, true, "%s", why)

	fr := p.freeListRoles()
	r.role("free-list creator", p.names(fr.creators))
	r.role("free-list mapper", p.names(fr.mappers))
	r.count("R03.1", "free-list creators", len(fr.creators), 1)
	r.count("R03.1", "free-list mappers", len(fr.mappers), 1)

	// --- free-list header: creator vs mapper binds
	type bind struct {
		k, w int64
		sym  ssa.Value
		base ssa.Value
		pos  string
	}
	binds := func(f *ssa.Function, typ string) map[string]bind {
		m := map[string]bind{}
		for _, a := range rawAccesses(f) {
			if strings.HasPrefix(a.Kind, "bind:"+typ+".") {
				m[strings.TrimPrefix(a.Kind, "bind:"+typ+".")] = bind{a.K, a.Width, a.Sym, a.Base, p.ipos(a.In)}
			}
		}
		return m
	}
	geom := []string{"size", "cap", "head", "tail", "capPerBuffer"}
	for _, c := range fr.creators {
		cb := binds(c, "bufferList")
		var es []ext
		for n, b := range cb {
			es = append(es, ext{n, b.k, b.w})
		}
		ok, why := disjointWithin(es, LH)
		r.ob("R03.1", p.fname(c)+": free-list header fields disjoint and inside bufferListHeaderSize", p.pos(c.Pos()), ok, true, "%s", why)
		for _, m := range fr.mappers {
			mb := binds(m, "bufferList")
			for _, g := range geom {
				x, okx := cb[g]
				y, oky := mb[g]
				okf := okx && oky && x.k == y.k && x.w == y.w
				r.ob("R03.1", fmt.Sprintf("free-list header field %s: %s and %s agree on offset and width", g, p.fname(c), p.fname(m)), y.pos, okf, true,
					"creator +%d/%d, mapper +%d/%d (found: %v/%v)", x.k, x.w, y.k, y.w, okx, oky)
			}
			if x, y := cb["counter"], mb["counter"]; x.k != y.k {
				r.note("diagnostic word bufferList.counter is bound at +%d by %s and +%d by %s (not a geometry field; no listed property depends on it)", x.k, p.fname(c), y.k, p.fname(m))
			}
			// all binds relative to the same base symbol within a function
			for _, mm := range []map[string]bind{cb, mb} {
				var s0 ssa.Value
				same := true
				first := true
				for _, g := range geom {
					b := mm[g]
					if first {
						s0 = b.sym
						first = false
					} else if b.sym != s0 {
						same = false
					}
				}
				if !same {
					r.fail("R03.1", "free-list header fields are bound relative to one base offset", "", "geometry fields use different symbolic bases")
				}
			}
		}
	}

	// --- slot header: frozen site table in terms of the named layout constants
	sym := func(s string) string {
		rep := strings.NewReplacer("cap", itoa(capO), "size", itoa(sizeO), "start", itoa(startO), "next", itoa(nextO), "flag", itoa(flagO))
		parts := strings.Fields(s)
		for i, pt := range parts {
			at := strings.Index(pt, "@")
			sl := strings.Index(pt, "/")
			parts[i] = pt[:at+1] + rep.Replace(pt[at+1:sl]) + pt[sl:]
		}
		sort.Strings(parts)
		return strings.Join(parts, " ")
	}
	isSlotBase := func(a rawAcc) bool {
		// accesses into the per-list buffer region (creator threading the chain)
		return isLoadOf(a.Base, "bufferList.bufferRegion")
	}
	notBind := func(a rawAcc) bool { return !strings.HasPrefix(a.Kind, "bind:") }
	type spec struct {
		fn     string
		want   string
		filter func(rawAcc) bool
		why    string
	}
	specs := []spec{
		{"(bufferHeader).nextBufferOffset", "load@next/4", nil, "reads the link"},
		{"(bufferHeader).hasNext", "load@flag/1", nil, "reads the flag byte"},
		{"(bufferHeader).isInUsed", "load@flag/1", nil, "reads the flag byte"},
		{"(bufferHeader).clearFlag", "store@flag/1", nil, "clears the flag byte"},
		{"(bufferHeader).setInUsed", "load@flag/1 store@flag/1", nil, "ORs the flag byte"},
		{"(bufferHeader).linkNext", "store@next/4 load@flag/1 store@flag/1", nil, "writes the link and sets hasNext"},
		{"(*bufferSlice).update", "store@size/4 store@start/4", nil, "writer stamps size and start"},
		{"(*bufferSlice).reset", "store@size/4 store@start/4", nil, "owner zeroes size and start"},
		{"newBufferSlice", "load@cap/4 load@size/4 load@start/4", nil, "reader rebuilds cap/start/size"},
		{"(*bufferManager).readBufferSlice", "load@cap/4", nil, "reads the slot capacity to bound the payload"},
		{"printLeakShareMemory", "load@flag/1 load@size/4", nil, "diagnostic dump"},
	}
	for _, c := range fr.creators {
		specs = append(specs, spec{p.fname(c), "store@cap/4 store@size/4 store@start/4 store@next/4 load@flag/1 store@flag/1", isSlotBase, "creator threads the initial chain"})
	}
	listed := map[string]bool{}
	for _, sp := range specs {
		listed[sp.fn] = true
		f := p.fn(sp.fn)
		if f == nil {
			r.fail("R03.1", "slot header access table: "+sp.fn, "", "function of the frozen table not found (anchor unresolved)")
			continue
		}
		r.Scope[sp.fn] = true
		flt := sp.filter
		if flt == nil {
			flt = notBind
		}
		got := accSet(rawAccesses(f), flt)
		r.ob("R03.1", "slot header accesses of "+sp.fn+" use the layout constants ("+sp.why+")", p.pos(f.Pos()), got == sym(sp.want), true,
			"expected {%s}, found {%s}", sym(sp.want), got)
	}
	// value-carrying checks
	if f := p.fn("(*bufferSlice).update"); f != nil {
		for _, a := range rawAccesses(f) {
			if a.Kind != "store" {
				continue
			}
			switch a.K {
			case sizeO:
				c, ok := stripConv(a.Val).(*ssa.Call)
				r.ob("R03.1", "(*bufferSlice).update: the size word carries size()", p.ipos(a.In), ok && p.calleeName(&c.Call) == "(*bufferSlice).size", true, "")
			case startO:
				r.ob("R03.1", "(*bufferSlice).update: the start word carries s.start", p.ipos(a.In), isLoadOf(a.Val, "bufferSlice.start"), true, "")
			}
		}
	}
	if f := p.fn("newBufferSlice"); f != nil {
		want := map[int64]string{capO: "bufferSlice.cap", startO: "bufferSlice.start"}
		for _, a := range rawAccesses(f) {
			if a.Kind != "load" {
				continue
			}
			if fld, ok := want[a.K]; ok {
				found := false
				for _, st := range findInstrs(f, mStoreWord(fld)) {
					if stripConv(st.(*ssa.Store).Val) == a.Val {
						found = true
					}
				}
				r.ob("R03.1", "newBufferSlice: word at +"+itoa(a.K)+" is stored into "+fld, p.ipos(a.In), found, true, "")
			}
		}
	}
	if f := p.fn("(bufferHeader).linkNext"); f != nil {
		for _, a := range rawAccesses(f) {
			if a.Kind == "store" && a.Width == 4 {
				_, isParam := stripConv(a.Val).(*ssa.Parameter)
				r.ob("R03.1", "(bufferHeader).linkNext: the link word carries the argument", p.ipos(a.In), isParam, true, "")
			}
		}
	}
	if f := p.fn("(bufferHeader).nextBufferOffset"); f != nil {
		for _, ret := range returnsOf(f) {
			okr := false
			for _, a := range rawAccesses(f) {
				if a.Kind == "load" && a.Val == stripConv(ret.Results[0]) {
					okr = true
				}
			}
			r.ob("R03.1", "(bufferHeader).nextBufferOffset: returns the link word", p.ipos(ret), okr, true, "")
		}
	}
	for _, fnm := range []string{"(bufferHeader).hasNext", "(bufferHeader).isInUsed"} {
		f := p.fn(fnm)
		if f == nil {
			continue
		}
		flagName := map[string]string{"(bufferHeader).hasNext": "hasNextBufferFlag", "(bufferHeader).isInUsed": "sliceInUsedFlag"}[fnm]
		fv, _ := p.pkgConstInt(flagName)
		okm := false
		allInstrs(f, func(in ssa.Instruction) {
			if b, ok := in.(*ssa.BinOp); ok && b.Op == token.AND {
				if c, ok := constInt(b.Y); ok && c == fv {
					okm = true
				}
			}
		})
		r.ob("R03.1", fnm+": tests the "+flagName+" bit", p.pos(f.Pos()), okm, true, "")
	}
	if f := p.fn("(bufferHeader).linkNext"); f != nil {
		fv, _ := p.pkgConstInt("hasNextBufferFlag")
		okm := false
		allInstrs(f, func(in ssa.Instruction) {
			if b, ok := in.(*ssa.BinOp); ok && b.Op == token.OR {
				if c, ok := constInt(b.Y); ok && c == fv {
					okm = true
				}
			}
		})
		r.ob("R03.1", "(bufferHeader).linkNext: sets the hasNextBufferFlag bit", p.pos(f.Pos()), okm, true, "")
	}

	// --- manager header
	cm, mm := p.fn("createBufferManager"), p.fn("mappingBufferManager")
	if cm == nil || mm == nil {
		r.fail("R03.1", "buffer-manager header creator/mapper", "", "anchor functions not found")
	} else {
		conv := func(s string, from, to string) string { return strings.ReplaceAll(s, from, to) }
		cs := accSet(rawAccesses(cm), func(a rawAcc) bool { return a.Kind == "store" })
		ms := accSet(rawAccesses(mm), func(a rawAcc) bool { return a.Kind == "load" })
		want := sym2(fmt.Sprintf("store@0/2 store@%d/4", bmCap))
		r.ob("R03.1", "buffer-manager header: creator stores and mapper loads agree (listNum u16, usedLength u32)", p.pos(mm.Pos()),
			cs == want && conv(ms, "load", "store") == cs && bmCap+4 <= MH, true, "creator {%s} mapper {%s} header size %d", cs, ms, MH)
	}

	if cm != nil {
		for _, a := range rawAccesses(cm) {
			if a.Kind != "store" {
				continue
			}
			switch {
			case a.K == 0 && a.Width == 2:
				okv := false
				if c, okc := stripConv(a.Val).(*ssa.Call); okc {
					if b, okb := c.Call.Value.(*ssa.Builtin); okb && b.Name() == "len" {
						_, okv = c.Call.Args[0].(*ssa.Parameter)
					}
				}
				r.ob("R03.1", "createBufferManager: the list-count word carries len(pairs)", p.ipos(a.In), okv, true, "")
			case a.K == bmCap && a.Width == 4:
				okv := false
				if sub, oks := stripConv(a.Val).(*ssa.BinOp); oks && sub.Op == token.SUB {
					if c, okc := constInt(sub.Y); okc && c == MH {
						if _, isPhi := sub.X.(*ssa.Phi); isPhi {
							okv = true
						}
					}
				}
				r.ob("R03.1", "createBufferManager: the used-length word carries (running end offset - manager header size)", p.ipos(a.In), okv, true, "the mapper bounds the lists with it")
			}
		}
	}

	// R03.7 the list count announced in the header equals the number of lists laid out / mapped:
	// every iteration of the per-class loop creates (maps) a list or fails the whole layout.
	for _, lc := range []struct {
		f    *ssa.Function
		call string
	}{{cm, "createFreeBufferList"}, {mm, "mappingFreeBufferList"}} {
		if lc.f == nil {
			continue
		}
		var bodies []Point
		var heads []ssa.Instruction
		for _, b := range lc.f.Blocks {
			switch b.Comment {
			case "rangeindex.body", "for.body":
				bodies = append(bodies, Point{b, -1})
			case "rangeindex.loop", "for.loop", "for.post":
				if len(b.Instrs) > 0 {
					heads = append(heads, b.Instrs[0])
				}
			}
		}
		mk := p.mCall(lc.call)
		okLoop := len(bodies) > 0 && len(heads) > 0
		for _, st := range bodies {
			for _, h := range heads {
				if p.reachesWithout(st, h, mk.F, nil) {
					okLoop = false
				}
			}
		}
		// and the created list is kept: append of the call's result
		kept := false
		for _, ci := range findInstrs(lc.f, mk) {
			for _, ref := range *ci.(*ssa.Call).Referrers() {
				if e, ok := ref.(*ssa.Extract); ok && e.Index == 0 {
					for _, r2 := range *e.Referrers() {
						if st, ok := r2.(*ssa.Store); ok && st.Val == ssa.Value(e) {
							kept = true
						}
					}
				}
			}
		}
		r.ob("R03.7", p.fname(lc.f)+": every size class of the loop gets a list (or the layout fails): the count word matches the lists laid out", p.pos(lc.f.Pos()), okLoop && kept, true,
			"skipping a class while the header still counts it makes the peer map a phantom class from whatever bytes follow")
	}

	// --- queue header
	qc, qm := p.fn("createQueueFromBytes"), p.fn("mappingQueueFromBytes")
	if qc == nil || qm == nil {
		r.fail("R03.1", "queue header creator/mapper", "", "anchor functions not found")
	} else {
		r.Scope["createQueueFromBytes"], r.Scope["mappingQueueFromBytes"] = true, true
		cs := accSet(rawAccesses(qc), func(a rawAcc) bool { return a.Kind == "store" })
		var capLoad string
		perAlloc := map[ssa.Value][]ext{}
		for _, a := range rawAccesses(qm) {
			if a.Kind == "load" {
				capLoad = a.String()
			}
			if strings.HasPrefix(a.Kind, "bind:queue.") {
				own := a.In.(*ssa.Store).Addr.(*ssa.FieldAddr).X
				perAlloc[own] = append(perAlloc[own], ext{strings.TrimPrefix(a.Kind, "bind:queue."), a.K, a.Width})
			}
		}
		r.ob("R03.1", "queue header: capacity word written by the creator where the mapper reads it", p.pos(qc.Pos()), cs == "store@0/4" && capLoad == "load@0/4", true, "creator {%s} mapper {%s}", cs, capLoad)
		// the capacity word is written before the shared binding routine reads it
		okOrd := false
		for _, a := range rawAccesses(qc) {
			if a.Kind == "store" && a.K == 0 && a.Width == 4 {
				for _, ci := range findInstrs(qc, p.mCall("mappingQueueFromBytes")) {
					if instrDominates(a.In, ci) {
						okOrd = true
					}
				}
				if _, isParam := stripConv(a.Val).(*ssa.Parameter); !isParam {
					okOrd = false
				}
			}
		}
		r.ob("R03.1", "queue header: the creator stores the requested capacity before binding the cursors", p.pos(qc.Pos()), okOrd, true, "the binding routine sizes the element area from the capacity word")
		// cursors and flag start at zero
		zeroed := 0
		for _, w := range []string{"*queue.head", "*queue.tail", "*queue.workingFlag"} {
			for _, si := range findInstrs(qc, mStoreWord(w)) {
				if c, okc := constInt(si.(*ssa.Store).Val); okc && c == 0 {
					zeroed++
				}
			}
		}
		r.ob("R03.1", "queue header: head, tail and working flag are initialised to zero by the creator", p.pos(qc.Pos()), zeroed == 3, true, "")
		mapsThrough := len(findInstrs(qc, p.mCall("mappingQueueFromBytes"))) > 0
		r.ob("R03.1", "queue header: creator obtains head/tail/flag through the mapper's own bindings", p.pos(qc.Pos()), mapsThrough, false, "creator and mapper share one binding routine")
		r.count("R03.1", "queue header variants (amd64, arm) in the mapper", len(perAlloc), 1)
		for own, es := range perAlloc {
			es2 := append([]ext{{"cap", 0, 4}}, es...)
			names := map[string]bool{}
			for _, e := range es {
				names[e.name] = true
			}
			ok, why := disjointWithin(es2, QH)
			okAll := ok && names["head"] && names["tail"] && names["workingFlag"]
			armVariant := false
			for _, fct := range factsAt(own.(ssa.Instruction).Block()) {
				if c, pol := condCall(fct.Cond); c != nil && p.calleeName(&c.Call) == "isArmArch" && fct.Truth == pol {
					armVariant = true
				}
			}
			name := "queue header (amd64 form)"
			if armVariant {
				name = "queue header (arm form)"
				for _, e := range es {
					if e.w == 8 && e.lo%8 != 0 {
						okAll = false
						why = e.name + " is not 8-byte aligned in the arm form"
					}
				}
			}
			r.ob("R03.1", name+": cap/head/tail/workingFlag disjoint, inside queueHeaderLength", p.ipos(own.(ssa.Instruction)), okAll, true, "%s %v", why, es2)
		}
		// data window = data[QH : QH + cap*QE]
		okWin := 0
		nWin := 0
		for _, st := range findInstrs(qm, mStoreWord("queue.queueBytesOnMemory")) {
			nWin++
			if sl, ok := st.(*ssa.Store).Val.(*ssa.Slice); ok {
				lo, okl := constInt(sl.Low)
				hi, okh := sl.High.(*ssa.BinOp)
				if okl && lo == QH && okh && hi.Op == token.ADD {
					if c, ok := constInt(hi.X); ok && c == QH {
						if mul, ok := hi.Y.(*ssa.BinOp); ok && mul.Op == token.MUL {
							if c2, ok := constInt(mul.Y); ok && c2 == QE {
								okWin++
							}
						}
					}
				}
			}
		}
		r.ob("R03.1", "queue element area is data[queueHeaderLength : queueHeaderLength+cap*queueElementLen]", p.pos(qm.Pos()), nWin > 0 && okWin == nWin, true, "%d of %d windows", okWin, nWin)
	}

	// --- queue element: producer vs consumer
	prod := p.functionsWhere(p.mAtomic("Add", "*queue.tail"))
	cons := p.functionsWhere(p.mAtomic("Add", "*queue.head"))
	r.role("queue producer", p.names(prod))
	r.role("queue consumer", p.names(cons))
	r.count("R03.1", "queue producers", len(prod), 1)
	r.count("R03.1", "queue consumers", len(cons), 1)
	elemTable := func(f *ssa.Function, kind string) map[string]int64 {
		m := map[string]int64{}
		for _, a := range rawAccesses(f) {
			if a.Kind != kind || a.Width != 4 || !isLoadOf(a.Base, "queue.queueBytesOnMemory") {
				continue
			}
			if kind == "store" {
				v := stripConv(a.Val)
				if fk := fieldKey(v); fk != "" {
					m[fk] = a.K
				} else if fa, ok := loadOfField(v); ok {
					m[fieldKey(fa)] = a.K
				}
			} else {
				for _, ref := range *a.Val.Referrers() {
					if st, ok := ref.(*ssa.Store); ok && st.Val == a.Val {
						if fk := fieldKey(st.Addr); fk != "" {
							m[fk] = a.K
						}
					}
				}
			}
		}
		return m
	}
	for _, pf := range prod {
		for _, cf := range cons {
			pt, ct := elemTable(pf, "store"), elemTable(cf, "load")
			okE := len(pt) == 3 && len(ct) == 3
			var es []ext
			for k, v := range pt {
				if ct[k] != v {
					okE = false
				}
				if _, ok := ct[k]; !ok {
					okE = false
				}
				es = append(es, ext{k, v, 4})
			}
			okD, why := disjointWithin(es, QE)
			r.ob("R03.1", "queue element: "+p.fname(pf)+" writes each field where "+p.fname(cf)+" reads it", p.pos(pf.Pos()), okE && okD, true, "producer %v consumer %v %s", pt, ct, why)
		}
	}

	// census: every function with an unsafe cast into a byte slice is classified
	classified := map[string]bool{"createBufferManager": true, "mappingBufferManager": true, "createQueueFromBytes": true, "mappingQueueFromBytes": true}
	for k := range listed {
		classified[k] = true
	}
	for _, f := range append(append(append([]*ssa.Function{}, fr.creators...), fr.mappers...), append(prod, cons...)...) {
		classified[p.fname(f)] = true
	}
	ncast := 0
	for _, f := range p.fnList {
		has := false
		for _, a := range rawAccesses(f) {
			if a.Width > 1 || strings.HasPrefix(a.Kind, "bind:") || namedName(a.Base.Type()) == "bufferHeader" {
				has = true
			}
		}
		if !has {
			continue
		}
		ncast++
		r.ob("R03.1", p.fname(f)+": raw shared-memory access is covered by a layout table", p.pos(f.Pos()), classified[p.fname(f)], false,
			"a function outside the frozen layout tables reads/writes shared memory through an unsafe cast: {%s}", accSet(rawAccesses(f), nil))
	}
	r.count("R03.1", "functions with raw shared-memory accesses", ncast, 15)

	c03Sizes(p, r, fr, H, LH)
	c03Wiring(p, r)
	c03Guards(p, r, fr)
	c03Tightness(p, r, fr)
	c03ObjectSize(p, r)
	// R03.9 slots are pairwise disjoint only if every descriptor's payload window is exactly its slot (shared with C01 R01.13)
	borrow(p, r, "C01", runC01, map[string]string{"R01.13": "R03.9"}, nil)
	// R03.10 the server maps what *this* client announced: a failed establishment releases its mappings and its entry in
	// the process-wide, path-keyed buffer-manager table, otherwise the next client under the same path is served the dead
	// client's memory and layout (shared with C12 R12.2)
	borrow(p, r, "C12", runC12, map[string]string{"R12.2": "R03.10"}, func(o Ob) bool { return constructHas(o, "newSession:", "initMemManager:") })
}

// c03ObjectSize (R03.8): the mapping side derives the geometry from the size of the backing object (queue split point
// = size/2, buffer capacity = size), so a creator must make the object exactly as large as the region it maps and
// lays out: in every function that sizes an object (Truncate / Ftruncate) and maps it, the two lengths are the same
// value up to integer conversions.
func c03ObjectSize(p *P, r *R) {
	mTrunc := p.mCall("(*os.File).Truncate", "syscall.Ftruncate", "golang.org/x/sys/unix.Ftruncate")
	mMmap := p.mCall("syscall.Mmap", "golang.org/x/sys/unix.Mmap")
	n := 0
	for _, f := range p.fnList {
		truncs, maps := findInstrs(f, mTrunc), findInstrs(f, mMmap)
		if len(truncs) == 0 || len(maps) == 0 {
			continue
		}
		fn := p.fname(f)
		r.Scope[fn] = true
		for _, ti := range truncs {
			n++
			tl := stripConv(ti.(*ssa.Call).Call.Args[1])
			ok := false
			detail := ""
			for _, mi := range maps {
				if !p.reaches(ti, mi, nil) {
					continue
				}
				ml := stripConv(mi.(*ssa.Call).Call.Args[2])
				same := sameExpr(ml, tl, 4)
				if ph, isPhi := ml.(*ssa.Phi); isPhi && !same {
					// the mapping length is merged with the non-creating branch (size read back from the object)
					for _, e := range ph.Edges {
						if sameExpr(e, tl, 4) {
							same = true
						}
					}
				}
				if same {
					ok = true
				} else {
					detail = "object sized with " + p.descr(tl, 3) + " but mapped with " + p.descr(ml, 3)
				}
			}
			r.ob("R03.8", fn+": the backing object is sized with the very length that is mapped and laid out", p.ipos(ti), ok, true,
				"the peer derives the layout from the object's size: %s", detail)
		}
	}
	r.count("R03.8", "functions that size and map a backing object", n, 4)
}

func sym2(s string) string {
	parts := strings.Fields(s)
	sort.Strings(parts)
	return strings.Join(parts, " ")
}

// R03.2 size and stride formulas
func c03Sizes(p *P, r *R, fr freeListRoles, H, LH int64) {
	f := p.fn("countBufferListMemSize")
	if f == nil {
		r.fail("R03.2", "anchor countBufferListMemSize", "", "function not found")
		return
	}
	// shape: LH + n*(c+H)
	okShape := false
	for _, ret := range returnsOf(f) {
		if add, ok := ret.Results[0].(*ssa.BinOp); ok && add.Op == token.ADD {
			c, okc := constInt(add.X)
			mul, okm := add.Y.(*ssa.BinOp)
			if !okc {
				c, okc = constInt(add.Y)
				mul, okm = add.X.(*ssa.BinOp)
			}
			if okc && c == LH && okm && mul.Op == token.MUL {
				for _, side := range []ssa.Value{mul.X, mul.Y} {
					if in, ok := side.(*ssa.BinOp); ok && in.Op == token.ADD {
						if c2, ok := constInt(in.Y); ok && c2 == H {
							okShape = true
						}
					}
				}
			}
		}
	}
	r.ob("R03.2", "countBufferListMemSize = bufferListHeaderSize + n*(capPerBuffer+bufferHeaderSize)", p.pos(f.Pos()), okShape, true, "")
	size := p.mCall("countBufferListMemSize")
	for _, name := range []string{"createBufferManager", "mappingBufferManager"} {
		g := p.fn(name)
		if g == nil {
			r.fail("R03.2", "anchor "+name, "", "function not found")
			continue
		}
		// the running offset is advanced by the size function's result
		adv := false
		allInstrs(g, func(in ssa.Instruction) {
			if b, ok := in.(*ssa.BinOp); ok && b.Op == token.ADD {
				if c, ok := b.Y.(*ssa.Call); ok && size.F(c) {
					if _, isPhi := b.X.(*ssa.Phi); isPhi {
						adv = true
					}
				}
			}
		})
		r.ob("R03.2", name+": advances to the next list by countBufferListMemSize", p.pos(g.Pos()), adv, true, "creator and mapper must use the same size function to place the lists")
	}
	for _, g := range append(append([]*ssa.Function{}, fr.creators...), fr.mappers...) {
		r.ob("R03.2", p.fname(g)+": region size comes from countBufferListMemSize", p.pos(g.Pos()), len(findInstrs(g, size)) > 0, true, "")
	}
	// creator: stride = capPerBuffer + H; tail = (n-1)*(capPerBuffer+H)
	for _, c := range fr.creators {
		stride, tail := false, false
		nextO, _ := p.pkgConstInt("nextBufferOffset")
		for _, a := range rawAccesses(c) {
			if a.Kind != "store" || a.K != nextO || a.Width != 4 || !isLoadOf(a.Base, "bufferList.bufferRegion") {
				continue
			}
			// the link stored is current + capPerBuffer + H, and it becomes the next `current` (compared as linear terms,
			// so `stride := capPerBuffer + H; link = current + stride; current += stride` is the same thing)
			ph, isPhi := stripConv(a.Sym).(*ssa.Phi)
			if !isPhi {
				continue
			}
			link := symLin(a.Val, 6)
			step := link.add(symLin(ph, 0), -1)
			okStep := step.c == H && len(step.k) == 1
			for k, v := range step.k {
				isParam := false
				for _, prm := range c.Params {
					if valKey(prm) == k {
						isParam = true
					}
				}
				if v != 1 || !isParam {
					okStep = false
				}
			}
			if okStep {
				for _, e := range ph.Edges {
					if _, isC := constInt(e); isC {
						continue
					}
					if symLin(e, 6).equal(link) {
						stride = true
					}
				}
			}
		}
		allInstrs(c, func(in ssa.Instruction) {
			b, ok := in.(*ssa.BinOp)
			if !ok {
				return
			}
			if b.Op == token.MUL {
				if in2, ok := b.Y.(*ssa.BinOp); ok && in2.Op == token.ADD {
					if k, ok := constInt(in2.Y); ok && k == H {
						if sub, ok := b.X.(*ssa.BinOp); ok && sub.Op == token.SUB {
							if k1, ok := constInt(sub.Y); ok && k1 == 1 {
								tail = true
							}
						}
					}
				}
			}
		})
		r.ob("R03.2", p.fname(c)+": initial chain is threaded with stride capPerBuffer+bufferHeaderSize", p.pos(c.Pos()), stride, true, "")
		r.ob("R03.2", p.fname(c)+": initial tail is (n-1)*(capPerBuffer+bufferHeaderSize)", p.pos(c.Pos()), tail, true, "")
	}
}

// R03.3 queue cross wiring
func c03Wiring(p *P, r *R) {
	nC, nM := 0, 0
	type wiring struct{ send, recv string }
	var creators, mappers []wiring
	for _, f := range p.fnList {
		if !p.allocates(f, "queueManager") {
			continue
		}
		fn := p.fname(f)
		r.Scope[fn] = true
		half := func(word string) (string, string, ssa.Value) {
			for _, st := range findInstrs(f, mStoreWord(word)) {
				call, ok := st.(*ssa.Store).Val.(*ssa.Call)
				if !ok || len(call.Call.Args) == 0 {
					continue
				}
				sl, ok := call.Call.Args[0].(*ssa.Slice)
				if !ok {
					continue
				}
				switch {
				case sl.Low == nil && sl.High != nil:
					return "low", p.calleeName(&call.Call), sl.High
				case sl.Low != nil && sl.High == nil:
					return "high", p.calleeName(&call.Call), sl.Low
				}
			}
			return "?", "", nil
		}
		sh, sc, sv := half("queueManager.sendQueue")
		rh, rc, rv := half("queueManager.recvQueue")
		isHalf := func(v ssa.Value) bool {
			b, ok := v.(*ssa.BinOp)
			if !ok || b.Op != token.QUO {
				return false
			}
			c, ok := constInt(b.Y)
			return ok && c == 2
		}
		okHalf := sv != nil && rv != nil && isHalf(sv) && isHalf(rv) && sameExpr(sv, rv, 4)
		// the halved quantity is the mapping's length
		r.ob("R03.3", fn+": both queues are cut at the same size/2", p.pos(f.Pos()), okHalf, true, "send cut %v recv cut %v", sv, rv)
		w := wiring{sh, rh}
		switch {
		case sc == "createQueueFromBytes" && rc == "createQueueFromBytes":
			nC++
			creators = append(creators, w)
			r.ob("R03.3", fn+": creator wires send=low half, recv=high half", p.pos(f.Pos()), sh == "low" && rh == "high", true, "send=%s recv=%s", sh, rh)
		case sc == "mappingQueueFromBytes" && rc == "mappingQueueFromBytes":
			nM++
			mappers = append(mappers, w)
			r.ob("R03.3", fn+": mapper wires send=high half, recv=low half (the creator's opposite)", p.pos(f.Pos()), sh == "high" && rh == "low", true, "send=%s recv=%s", sh, rh)
		default:
			r.fail("R03.3", fn+": queueManager built by an unrecognised pair of queue constructors", p.pos(f.Pos()), "send via %q recv via %q", sc, rc)
		}
	}
	r.count("R03.3", "queueManager creators", nC, 2)
	r.count("R03.3", "queueManager mappers", nM, 2)
}

// R03.4 guard presence, R03.5 sort before create
func c03Guards(p *P, r *R, fr freeListRoles) {
	var fns []*ssa.Function
	fns = append(fns, fr.creators...)
	fns = append(fns, fr.mappers...)
	for _, n := range []string{"createBufferManager", "mappingBufferManager"} {
		if f := p.fn(n); f != nil {
			fns = append(fns, f)
		}
	}
	n := 0
	for _, f := range fns {
		fn := p.fname(f)
		var mem *ssa.Parameter
		for _, prm := range f.Params {
			if isByteSlice(prm.Type()) {
				mem = prm
			}
		}
		if mem == nil {
			r.fail("R03.4", fn+": []byte parameter", p.pos(f.Pos()), "layout function without a mem parameter")
			continue
		}
		isLenMem := func(v ssa.Value) bool {
			c, ok := v.(*ssa.Call)
			if !ok {
				return false
			}
			b, ok := c.Call.Value.(*ssa.Builtin)
			return ok && b.Name() == "len" && c.Call.Args[0] == mem
		}
		allInstrs(f, func(in ssa.Instruction) {
			var isAcc bool
			switch x := in.(type) {
			case *ssa.IndexAddr:
				isAcc = x.X == mem
			case *ssa.Slice:
				isAcc = x.X == mem
			}
			if !isAcc {
				return
			}
			n++
			guarded := false
			for _, fct := range factsAt(in.Block()) {
				b, ok := fct.Cond.(*ssa.BinOp)
				if !ok {
					continue
				}
				if !(derivedFrom(b.X, isLenMem, 4) || derivedFrom(b.Y, isLenMem, 4)) {
					continue
				}
				// the other edge of that If must end in an error return
				other := fct.If.Block().Succs[0]
				if fct.Truth {
					other = fct.If.Block().Succs[1]
				}
				if leadsToErrorReturn(other, 3) {
					guarded = true
				}
			}
			r.ob("R03.4", fn+": raw access to mem is behind a len(mem) check", p.ipos(in), guarded, true,
				"every index/slice of the mapping in a layout function must be dominated by a comparison with len(mem) whose failing edge returns an error (presence, not sufficiency)")
		})
	}
	r.count("R03.4", "raw accesses to mem in buffer layout functions", n, 10)
	if f := p.fn("mappingQueueFromBytes"); f != nil {
		r.note("mappingQueueFromBytes indexes its data parameter without a length guard (queue file is created by the cooperating client; peer-trusted input) — not part of R03.4's instance set")
	}

	// R03.5 sort dominates create in every function calling createBufferManager
	nS := 0
	for _, f := range p.fnList {
		for _, ci := range findInstrs(f, p.mCall("createBufferManager")) {
			nS++
			okS := false
			for _, si := range findInstrs(f, p.mCall("sort.Sort", "sort.Stable", "sort.Slice", "sort.SliceStable")) {
				if instrDominates(si, ci) {
					okS = true
				}
			}
			r.ob("R03.5", p.fname(f)+": size/percent pairs are sorted before createBufferManager", p.ipos(ci), okS, true,
				"allocation walks the lists in ascending size order; unsorted pairs would break first-fit selection")
		}
	}
	r.count("R03.5", "createBufferManager call sites", nS, 2)
}

// leadsToErrorReturn: following unconditional flow (and both arms of nested Ifs up to depth) from b
// reaches only returns whose last result is a definitely non-nil error.
func leadsToErrorReturn(b *ssa.BasicBlock, depth int) bool {
	for i := 0; i < 8; i++ {
		last := b.Instrs[len(b.Instrs)-1]
		switch x := last.(type) {
		case *ssa.Return:
			return len(x.Results) > 0 && definitelyNonNil(x.Results[len(x.Results)-1])
		case *ssa.Jump:
			b = b.Succs[0]
		case *ssa.If:
			if depth <= 0 {
				return false
			}
			// a || chain: one arm goes to the error block, the other continues checking
			return leadsToErrorReturn(b.Succs[0], depth-1) || leadsToErrorReturn(b.Succs[1], depth-1)
		default:
			return false
		}
	}
	return false
}

// descr renders an expression by roles (parameter index, field, layout word, size function) so that
// the guard table below does not depend on local variable or parameter names.
func (p *P) descr(v ssa.Value, depth int) string {
	if depth <= 0 {
		return "?"
	}
	v = stripConv(v)
	if c, ok := constInt(v); ok {
		if _, isC := v.(*ssa.Const); isC {
			return itoa(c)
		}
	}
	switch x := v.(type) {
	case *ssa.Parameter:
		for i, prm := range x.Parent().Params {
			if prm == x {
				return "p" + itoa(int64(i))
			}
		}
	case *ssa.BinOp:
		a, b := p.descr(x.X, depth-1), p.descr(x.Y, depth-1)
		if x.Op == token.ADD && a > b {
			a, b = b, a // commutative: canonical order
		}
		return "(" + a + x.Op.String() + b + ")"
	case *ssa.Call:
		if bi, ok := x.Call.Value.(*ssa.Builtin); ok {
			return bi.Name() + "(" + p.descr(x.Call.Args[0], depth-1) + ")"
		}
		if g := p.localCallee(x); g != nil {
			var as []string
			for _, a := range x.Call.Args {
				as = append(as, p.descr(a, depth-1))
			}
			return p.fname(g) + "(" + strings.Join(as, ",") + ")"
		}
	case *ssa.UnOp:
		if x.Op == token.MUL {
			if fa, ok := stripConv(x.X).(*ssa.FieldAddr); ok {
				return fieldKey(fa)
			}
			if ia, w, ok := castOf(x.X); ok {
				_, k := splitConst(ia.Index)
				return "word@" + itoa(k) + "/" + itoa(w)
			}
			if inner, ok := stripConv(x.X).(*ssa.UnOp); ok && inner.Op == token.MUL {
				if fa, ok := stripConv(inner.X).(*ssa.FieldAddr); ok {
					return "*" + fieldKey(fa)
				}
			}
		}
	}
	return "?"
}

// R03.6 guard tightness: the strictness of every mapping-length guard of the layout code is frozen.
// An over-strict guard (rejecting the exact-fit mapping the creator accepts) or an over-lax one is a
// one-sided change of the accepted layouts; relations are normalised, so `a > b` vs `b < a` vs
// `!(a <= b)` are the same entry.
var guardTable = map[string]string{
	// function | E (what len(mapping) is compared with)  ->  relation "len REL E" on the accepting edge
	"createBufferManager|p3":                                  ">",  // mem[offset] is dereferenced
	"mappingBufferManager|(4+p2)":                             ">",  // mem[start+bmCapOffset] is dereferenced
	"mappingBufferManager|p2":                                 ">",  // mem[start] is dereferenced
	"mappingBufferManager|(8+word@4/4)":                       ">=", // header + used length may fill the mapping exactly
	"createFreeBufferList|(countBufferListMemSize(p0,p1)+p3)": ">=", // the list may end exactly at the end of the mapping
	"createFreeBufferList|p3":                                 ">=",
	"createFreeBufferList|countBufferListMemSize(p0,p1)":      ">=",
	"mappingFreeBufferList|(36+p1)":                           ">=",
	"mappingFreeBufferList|(countBufferListMemSize(*bufferList.cap,*bufferList.capPerBuffer)+p1)": ">=",
	"(*bufferManager).readBufferSlice|(20+p1)":                                                    ">",  // a slot header is never the last thing in the mapping
	"(*bufferManager).readBufferSlice|((20+p1)+word@0/4)":                                         ">=", // the last slot's payload ends exactly at the end of the mapping
}

func c03Tightness(p *P, r *R, fr freeListRoles) {
	var fns []*ssa.Function
	fns = append(fns, fr.creators...)
	fns = append(fns, fr.mappers...)
	for _, n := range []string{"createBufferManager", "mappingBufferManager", "(*bufferManager).readBufferSlice"} {
		if f := p.fn(n); f != nil {
			fns = append(fns, f)
		}
	}
	guardTightness(p, r, "R03.6", fns, 10)
}

func guardTightness(p *P, r *R, rule string, fns []*ssa.Function, floor int) {
	matched := 0
	for _, f := range fns {
		fn := p.fname(f)
		isLenMap := func(v ssa.Value) bool {
			c, ok := stripConv(v).(*ssa.Call)
			if !ok {
				return false
			}
			b, ok := c.Call.Value.(*ssa.Builtin)
			if !ok || b.Name() != "len" {
				return false
			}
			a := c.Call.Args[0]
			if prm, ok := a.(*ssa.Parameter); ok && isByteSlice(prm.Type()) {
				return true
			}
			return isLoadOf(a, "bufferManager.mem")
		}
		for _, b := range f.Blocks {
			ifi := blockIf(b)
			if ifi == nil {
				continue
			}
			cv, _ := stripNot(ifi.Cond)
			bo, ok := cv.(*ssa.BinOp)
			if !ok {
				continue
			}
			var e ssa.Value
			switch {
			case isLenMap(bo.X):
				e = bo.Y
			case isLenMap(bo.Y):
				e = bo.X
			default:
				continue
			}
			// which edge rejects?
			rejT := leadsToErrorReturn(b.Succs[0], 0) || (blockIf(b.Succs[0]) == nil && leadsToErrorReturn(b.Succs[0], 1))
			rejF := leadsToErrorReturn(b.Succs[1], 0)
			if rejT == rejF {
				// `a || b` chains: the true edge goes to the shared error block
				rejT = leadsToErrorReturn(b.Succs[0], 2)
				rejF = false
			}
			if !rejT && !rejF {
				continue
			}
			isE := func(v ssa.Value) bool { return stripConv(v) == stripConv(e) }
			rel := relOn(ifi.Cond, !rejT, isLenMap, isE) // relation on the accepting edge
			key := fn + "|" + p.descr(e, 6)
			want, known := guardTable[key]
			if !known {
				r.note(rule+": unclassified mapping-length guard in %s: len(mapping) %s %s at %s", fn, rel, p.descr(e, 6), p.ipos(ifi))
				continue
			}
			matched++
			r.ob(rule, fn+": length guard against "+p.descr(e, 6)+" accepts exactly len(mapping) "+want+" it", p.ipos(ifi), rel == want, true,
				"found len(mapping) %s E on the accepting edge; a one-sided change of strictness makes one end reject (or over-accept) layouts the other end produces, e.g. an exact-fit mapping", rel)
		}
	}
	r.count(rule, "classified mapping-length guards", matched, floor)
}
