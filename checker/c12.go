package main

import (
	"go/constant"
	"go/token"
	"go/types"
	"strings"

	"golang.org/x/tools/go/ssa"
)

func init() {
	register(&property{
		ID: "C12",
		Explanation: "Decides structural necessary conditions of session establishment: both ends compute the negotiated version as a min-shaped function of the peer's announced version and their own maximum, and that value is what reaches the initializer factory / communicationVersion; " +
			"nothing acquired during a failed establishment is left behind on the peer-caused error exits: the dup'ed descriptor, the queue mapping and the buffer-manager reference in newSession, the buffer manager in initMemManager, the mapping after a failed layout step, the received descriptors when they cannot be mapped; the exchange is raced against InitializeTimeout with a buffered result channel; every handshake message that one side waits for is sent by its producer on every success path (so both ends agree on the outcome); " +
			"the server maps exactly what the client announced (wire order of the two paths and of the two descriptors agrees between sender and receiver, queue<->queue and buffer<->buffer). " +
			"NOT decided: that both mappings are the very same memory (run-time identity), behaviour for every step at which the peer goes silent beyond the timeout arm's presence, the v2/v3 x file/memfd outcome matrix. Local syscall-failure exits (ftruncate/fstat/mmap failing) are outside the property's peer-fault quantifier and are listed as notes.",
		RuleText: "R12.1 shape of the version computation on both ends; R12.2 must-pass-through from each acquisition's success edge to every error exit (release, or ownership transfer to a structure the caller cleans); R12.3 escape arm and buffering of the handshake race; R12.4 value-flow identity of announced vs mapped paths/descriptors; R12.5 wait/send pairing of the handshake messages (every message one side waits for is sent by its producer on every success exit).",
		Run:      runC12,
	})
}

// mustModNil: every path through g passes an event matching m, ignoring edges on which an optional
// manager pointer is known to be nil (nothing to release there).
func (p *P) mustModNil(g *ssa.Function, m M) bool { return p.mustModNilD(g, m, 3) }

func (p *P) mustModNilD(g *ssa.Function, m M, depth int) bool {
	if g == nil || g.Blocks == nil || depth < 0 {
		return false
	}
	res := p.mustPass(g, []Point{{g.Blocks[0], -1}}, func(in ssa.Instruction) bool {
		if m.F(in) {
			return true
		}
		if _, isGo := in.(*ssa.Go); isGo {
			return false
		}
		if h := p.localCallee(in); h != nil && h != g {
			return p.mustModNilD(h, m, depth-1)
		}
		return false
	},
		func(b *ssa.BasicBlock, i int) bool {
			ifi := blockIf(b)
			if ifi == nil {
				return true
			}
			isMgr := func(v ssa.Value) bool {
				fa, ok := loadOfField(v)
				return ok && (fieldKey(fa) == "Session.queueManager" || fieldKey(fa) == "Session.bufferManager")
			}
			return relOn(ifi.Cond, i == 0, isMgr, isNilConst) != "=="
		}, nil)
	return res.OK
}

// deferredDischarge: `in` is `defer func() { if done { return }; ...cleanup... }()` (or a plain deferred cleanup) and
// the closure performs m on every path on which its success flag is still false; the flag (a captured local) is set
// to true only where no error exit can follow. Such a defer discharges "released on every error exit" obligations
// for all exits after it.
func (p *P) deferredDischarge(f *ssa.Function, in ssa.Instruction, m M) bool {
	d, ok := in.(*ssa.Defer)
	if !ok {
		return false
	}
	mc, ok := d.Call.Value.(*ssa.MakeClosure)
	if !ok {
		if g := d.Call.StaticCallee(); g != nil && g.Pkg == p.Pkg {
			return p.mustModNil(g, m)
		}
		return false
	}
	g, _ := mc.Fn.(*ssa.Function)
	if g == nil || g.Blocks == nil {
		return false
	}
	flags := map[*ssa.Alloc]bool{}
	res := p.mustPass(g, []Point{{g.Blocks[0], -1}}, func(i2 ssa.Instruction) bool {
		if m.F(i2) {
			return true
		}
		if h := p.localCallee(i2); h != nil && h != g {
			if _, isGo := i2.(*ssa.Go); !isGo {
				return p.mustModNilD(h, m, 2)
			}
		}
		return false
	}, func(b *ssa.BasicBlock, i int) bool {
		ifi := blockIf(b)
		if ifi == nil {
			return true
		}
		cond, neg := stripNot(ifi.Cond)
		if u, ok := cond.(*ssa.UnOp); ok && u.Op == token.MUL {
			if fv, ok := u.X.(*ssa.FreeVar); ok {
				for k, v := range g.FreeVars {
					if v == fv && k < len(mc.Bindings) {
						if al, ok := mc.Bindings[k].(*ssa.Alloc); ok {
							flags[al] = true
							if (i == 0) != neg {
								return false // flag set: the function succeeded, nothing to release
							}
						}
					}
				}
			}
		}
		isMgr := func(v ssa.Value) bool {
			fa, ok := loadOfField(v)
			return ok && (fieldKey(fa) == "Session.queueManager" || fieldKey(fa) == "Session.bufferManager")
		}
		return relOn(ifi.Cond, i == 0, isMgr, isNilConst) != "=="
	}, nil)
	if !res.OK {
		return false
	}
	for al := range flags {
		for _, ref := range *al.Referrers() {
			st, ok := ref.(*ssa.Store)
			if !ok || st.Addr != ssa.Value(al) {
				continue
			}
			c, isC := st.Val.(*ssa.Const)
			if isC && c.Value != nil && c.Value.String() == "false" {
				continue
			}
			// after the flag is set no error exit may follow
			okp, _ := p.findBadPath(f, []Point{pointOf(st)}, pathOpts{Bad: func(i2 ssa.Instruction) bool {
				ret, isRet := i2.(*ssa.Return)
				return isRet && !(f.Recover != nil && ret.Block() == f.Recover) && isErrorExit(ret)
			}})
			if !okp {
				return false
			}
		}
	}
	return true
}

func runC12(p *P, r *R) {
	minShaped := detectMinShaped(p)
	maxV, _ := p.pkgConstInt("maxSupportProtoVersion")
	isVersionOfHeader := func(v ssa.Value) bool {
		return derivedFrom(v, func(x ssa.Value) bool {
			c, ok := x.(*ssa.Call)
			return ok && p.calleeName(&c.Call) == "(header).Version"
		}, 3)
	}
	// ---- R12.1
	check := func(fn string, sink func(f *ssa.Function, minCall *ssa.Call) bool, sinkDesc string) {
		f := p.fn(fn)
		if f == nil {
			r.fail("R12.1", "anchor "+fn, "", "not found")
			return
		}
		ok := false
		why := "no min-shaped call of (peer version, own maximum)"
		allInstrs(f, func(in ssa.Instruction) {
			c, isC := in.(*ssa.Call)
			if !isC || !minShaped[p.calleeName(&c.Call)] || len(c.Call.Args) != 2 {
				return
			}
			peer, own := false, false
			for _, a := range c.Call.Args {
				if isVersionOfHeader(a) {
					peer = true
				}
				if k, okk := constInt(a); okk && k == maxV {
					own = true
				}
			}
			if peer && own {
				if sink(f, c) {
					ok = true
				} else {
					why = "the minimum does not reach " + sinkDesc
				}
			}
		})
		r.ob("R12.1", fn+": negotiated version = min(peer's announced version, maxSupportProtoVersion) and reaches "+sinkDesc, p.pos(f.Pos()), ok, true, "%s", why)
	}
	check("(*protocolAdaptor).clientGetProtocolInitializer", func(f *ssa.Function, mc *ssa.Call) bool {
		okS := false
		for _, ci := range findInstrs(f, p.mCall("createProtoVersionInitializer")) {
			if derivedFrom(ci.(*ssa.Call).Call.Args[1], func(v ssa.Value) bool { return v == ssa.Value(mc) }, 3) {
				okS = true
			}
		}
		return okS
	}, "the initializer factory")
	check("handleExchangeVersion", func(f *ssa.Function, mc *ssa.Call) bool {
		okS := false
		for _, si := range findInstrs(f, mStoreWord("Session.communicationVersion")) {
			if derivedFrom(si.(*ssa.Store).Val, func(v ssa.Value) bool { return v == ssa.Value(mc) }, 3) {
				okS = true
			}
		}
		return okS
	}, "Session.communicationVersion")
	// the client announces its maximum; the server answers with its maximum
	for _, fn := range []string{"(*protocolAdaptor).clientGetProtocolInitializer", "handleExchangeVersion"} {
		f := p.fn(fn)
		if f == nil {
			continue
		}
		ok := false
		for _, ci := range findInstrs(f, p.mCall("(header).encode")) {
			c := ci.(*ssa.Call)
			if k, okk := constInt(c.Call.Args[2]); okk && k == maxV {
				if t, okt := constInt(c.Call.Args[3]); okt {
					ex, _ := p.pkgConstInt("typeExchangeProtoVersion")
					ok = t == ex
				}
			}
		}
		r.ob("R12.1", fn+": announces maxSupportProtoVersion in a typeExchangeProtoVersion event", p.pos(f.Pos()), ok, true, "")
	}
	// the client adopts the version of the initializer it obtained
	if ip := p.fn("(*Session).initProtocol"); ip != nil {
		ok := false
		for _, g := range ip.AnonFuncs {
			for _, si := range findInstrs(g, mStoreWord("Session.communicationVersion")) {
				if c, isC := si.(*ssa.Store).Val.(*ssa.Call); isC && c.Call.IsInvoke() && c.Call.Method.Name() == "Version" {
					ok = true
				}
			}
		}
		r.ob("R12.1", "initProtocol: communicationVersion is the version of the negotiated initializer", p.pos(ip.Pos()), ok, true, "")
	}

	c12Resources(p, r)
	c12Race(p, r)
	c12Identity(p, r)
	c12Duality(p, r)
	// R12.6 wrong-phase / wrong-type messages end the establishment with an error on this end (shared with C13 R13.1)
	borrow(p, r, "C13", runC13, map[string]string{"R13.1": "R12.6"}, func(o Ob) bool {
		return constructHas(o, "testing the header's message type", "validated before it is returned")
	})
	c12MapperNeverCreates(p, r)
	// R12.9 both ends map the very same queue memory: creator and every mapper cut the region at the same place and wire
	// send/recv crosswise (shared with C03 R03.3)
	borrow(p, r, "C03", runC03, map[string]string{"R03.3": "R12.9"}, nil)
}

// R12.2
func c12Resources(p *P, r *R) {
	ns := p.fn("newSession")
	if ns == nil {
		r.fail("R12.2", "anchor newSession", "", "not found")
		return
	}
	errorReturn := func(in ssa.Instruction) bool {
		ret, ok := in.(*ssa.Return)
		if !ok {
			return false
		}
		if ns.Recover != nil && ret.Block() == ns.Recover {
			return false
		}
		return true
	}
	// (a) the dup'ed descriptor
	fileClose := p.mCall("(*os.File).Close")
	for _, ai := range findInstrs(ns, p.mCall("getConnDupFd")) {
		ac := ai.(*ssa.Call)
		var errv ssa.Value
		for _, ref := range *ac.Referrers() {
			if e, ok := ref.(*ssa.Extract); ok && e.Index == 1 {
				errv = e
			}
		}
		ok, res := p.findBadPath(ns, []Point{pointOf(ac)}, pathOpts{
			Discharge: func(in ssa.Instruction) bool {
				return p.evMust(in, fileClose, inlineDepth) || p.deferredDischarge(ns, in, fileClose)
			},
			Bad: func(in ssa.Instruction) bool {
				ret, isRet := in.(*ssa.Return)
				return isRet && errorReturn(in) && isErrorExit(ret)
			},
			EdgeOK: func(b *ssa.BasicBlock, i int) bool { return errv == nil || !edgeKnownNonNil(b, i, errv) },
		})
		r.ob("R12.2", "newSession: the dup'ed connection descriptor is closed on every error exit", p.ipos(ac), ok, true,
			"a peer that stops answering must not leave a descriptor behind: %s", p.pathString(res))
	}
	// (b) mappings after the handshake started
	unmapQ := p.mCall("(*queueManager).unmap")
	var decRef = M{ID: "refcount-1", F: func(in ssa.Instruction) bool {
		c, ok := in.(*ssa.Call)
		if !ok || p.calleeName(&c.Call) != "addGlobalBufferManagerRefCount" {
			return false
		}
		k, okk := constInt(c.Call.Args[1])
		return okk && k == -1
	}}
	for _, what := range []struct {
		name string
		m    M
	}{{"queue mapping", unmapQ}, {"buffer-manager reference", decRef}} {
		for _, ai := range findInstrs(ns, p.mCall("(*Session).initProtocol")) {
			m := what.m
			disch := func(in ssa.Instruction) bool {
				if m.F(in) {
					return true
				}
				if g := p.localCallee(in); g != nil && p.mustModNil(g, m) {
					return true
				}
				return false
			}
			// a deferred guarded cleanup armed before the handshake covers every later exit
			armed := false
			for _, di := range findInstrs(ns, M{ID: "defer", F: func(i2 ssa.Instruction) bool { _, isD := i2.(*ssa.Defer); return isD }}) {
				if instrDominates(di, ai) && p.deferredDischarge(ns, di, m) {
					armed = true
				}
			}
			if armed {
				r.ob("R12.2", "newSession: the "+what.name+" is released on every error exit after the handshake started", p.ipos(ai), true, true, "deferred cleanup guarded by a success flag")
				continue
			}
			ok, res := p.findBadPath(ns, []Point{pointOf(ai)}, pathOpts{
				Discharge: disch,
				Bad: func(in ssa.Instruction) bool {
					ret, isRet := in.(*ssa.Return)
					return isRet && errorReturn(in) && isErrorExit(ret)
				},
				EdgeOK: func(b *ssa.BasicBlock, i int) bool {
					ifi := blockIf(b)
					if ifi == nil {
						return true
					}
					isMgr := func(v ssa.Value) bool {
						fa, okf := loadOfField(v)
						return okf && (fieldKey(fa) == "Session.queueManager" || fieldKey(fa) == "Session.bufferManager")
					}
					return relOn(ifi.Cond, i == 0, isMgr, isNilConst) != "=="
				},
			})
			r.ob("R12.2", "newSession: the "+what.name+" is released on every error exit after the handshake started", p.ipos(ai), ok, true, "%s", p.pathString(res))
		}
	}
	// (c) initMemManager
	if im := p.fn("(*Session).initMemManager"); im != nil {
		n := 0
		for _, ai := range findInstrs(im, p.mCall("getGlobalBufferManager", "getGlobalBufferManagerWithMemFd")) {
			ac := ai.(*ssa.Call)
			var errv ssa.Value
			for _, ref := range *ac.Referrers() {
				if e, ok := ref.(*ssa.Extract); ok && e.Index == 1 {
					errv = e
				}
			}
			n++
			ok, res := p.findBadPath(im, []Point{pointOf(ac)}, pathOpts{
				Discharge: decRef.F,
				Bad: func(in ssa.Instruction) bool {
					ret, isRet := in.(*ssa.Return)
					return isRet && isErrorExit(ret)
				},
				EdgeOK: func(b *ssa.BasicBlock, i int) bool { return errv == nil || !edgeKnownNonNil(b, i, errv) },
			})
			r.ob("R12.2", "initMemManager: a created buffer manager is released when the queue manager cannot be created", p.ipos(ac), ok, true, "%s", p.pathString(res))
		}
		r.count("R12.2", "buffer-manager acquisitions in initMemManager", n, 2)
		// success: both stored into the session (ownership transfer, cleaned by newSession)
		okStore := len(findInstrs(im, mStoreWord("Session.bufferManager"))) > 0 && len(findInstrs(im, mStoreWord("Session.queueManager"))) > 0
		r.ob("R12.2", "initMemManager: on success both managers are stored in the session (owner cleaned by newSession)", p.pos(im.Pos()), okStore, true, "")
	} else {
		r.fail("R12.2", "anchor (*Session).initMemManager", "", "not found")
	}
	// (d) mapping released when the layout step fails
	mmap := p.mCall("golang.org/x/sys/unix.Mmap", "syscall.Mmap")
	munmap := p.mCall("golang.org/x/sys/unix.Munmap", "syscall.Munmap")
	nM := 0
	for _, f := range p.fnList {
		fn := p.fname(f)
		if !strings.HasPrefix(fn, "getGlobalBufferManager") {
			continue
		}
		for _, ai := range findInstrs(f, mmap) {
			ac := ai.(*ssa.Call)
			var errv ssa.Value
			for _, ref := range *ac.Referrers() {
				if e, ok := ref.(*ssa.Extract); ok && e.Index == 1 {
					errv = e
				}
			}
			nM++
			ok, res := p.findBadPath(f, []Point{pointOf(ac)}, pathOpts{
				Discharge: munmap.F,
				Bad: func(in ssa.Instruction) bool {
					ret, isRet := in.(*ssa.Return)
					if !isRet || (f.Recover != nil && ret.Block() == f.Recover) {
						return false
					}
					return isErrorExit(ret)
				},
				EdgeOK: func(b *ssa.BasicBlock, i int) bool { return errv == nil || !edgeKnownNonNil(b, i, errv) },
			})
			r.ob("R12.2", fn+": the mapping is unmapped when the layout step fails", p.ipos(ac), ok, true, "%s", p.pathString(res))
		}
	}
	r.count("R12.2", "mmap sites in getGlobalBufferManager*", nM, 2)
	// (e) received descriptors
	if hf := p.fn("handleShareMemoryByMemFd"); hf != nil {
		sysClose := p.mCall("golang.org/x/sys/unix.Close", "syscall.Close")
		for _, name := range []string{"mappingQueueManagerMemfd", "getGlobalBufferManagerWithMemFd"} {
			for _, ai := range findInstrs(hf, p.mCall(name)) {
				ac := ai.(*ssa.Call)
				var errv ssa.Value
				for _, ref := range *ac.Referrers() {
					if e, ok := ref.(*ssa.Extract); ok && e.Index == 1 {
						errv = e
					}
				}
				// on the failure edge of this call: the descriptor given to it is closed before returning
				fdArg := ac.Call.Args[1]
				okc := false
				for _, b := range hf.Blocks {
					for i := range b.Succs {
						if errv != nil && edgeKnownNonNil(b, i, errv) {
							res := p.mustPass(hf, []Point{{b.Succs[i], -1}}, func(in ssa.Instruction) bool {
								return sysClose.F(in) && sameExpr(in.(*ssa.Call).Call.Args[0], fdArg, 3)
							}, nil, nil)
							okc = res.OK
						}
					}
				}
				r.ob("R12.2", "handleShareMemoryByMemFd: the descriptor passed to "+name+" is closed when it cannot be mapped", p.ipos(ac), okc, true,
					"a peer can send descriptors of the wrong size or kind; each failed handshake would leak them")
			}
		}
		// when the queue cannot be mapped, the buffer descriptor (not yet used) is closed as well
		for _, ai := range findInstrs(hf, p.mCall("mappingQueueManagerMemfd")) {
			ac := ai.(*ssa.Call)
			var errv ssa.Value
			for _, ref := range *ac.Referrers() {
				if e, ok := ref.(*ssa.Extract); ok && e.Index == 1 {
					errv = e
				}
			}
			nClose := 0
			for _, b := range hf.Blocks {
				for i := range b.Succs {
					if errv != nil && edgeKnownNonNil(b, i, errv) {
						for _, in := range b.Succs[i].Instrs {
							if sysClose.F(in) {
								nClose++
							}
						}
					}
				}
			}
			r.ob("R12.2", "handleShareMemoryByMemFd: both received descriptors are closed when the queue cannot be mapped", p.ipos(ac), nClose >= 2, true, "%d close call(s) on the failure edge", nClose)
		}
		r.note("handleShareMemoryByMemFd: when fewer than memfdCount descriptors arrive the ones received are not closed (local note; the peer then violates the protocol)")
	} else {
		r.fail("R12.2", "anchor handleShareMemoryByMemFd", "", "not found")
	}
	// (f) ownership transfer: a manager obtained during establishment is stored into the session (whose owner,
	// newSession, cleans it on failure) or released before any error exit of the function that obtained it
	type acq struct {
		callees []string
		field   string
		release M
	}
	unmapM := p.mCall("(*queueManager).unmap")
	for _, a := range []acq{
		{[]string{"mappingQueueManager", "mappingQueueManagerMemfd", "createQueueManager", "createQueueManagerWithMemFd"}, "Session.queueManager", unmapM},
		{[]string{"getGlobalBufferManager", "getGlobalBufferManagerWithMemFd"}, "Session.bufferManager", decRef},
	} {
		nA := 0
		for _, f := range p.fnList {
			for _, ai := range findInstrs(f, p.mCall(a.callees...)) {
				ac := ai.(*ssa.Call)
				var x, errv ssa.Value
				for _, ref := range *ac.Referrers() {
					if e, ok := ref.(*ssa.Extract); ok {
						if e.Index == 0 {
							x = e
						} else {
							errv = e
						}
					}
				}
				if x == nil {
					continue
				}
				nA++
				field := a.field
				rel := a.release
				stored := func(in ssa.Instruction) bool {
					st, ok := in.(*ssa.Store)
					if !ok || wordOf(st.Addr) != field {
						return false
					}
					// the value may have gone through a local variable (phi)
					return derivedFrom(st.Val, func(v ssa.Value) bool { return v == x }, 3)
				}
				okp, res := p.findBadPath(f, []Point{pointOf(ac)}, pathOpts{
					Discharge: func(in ssa.Instruction) bool { return stored(in) || rel.F(in) },
					Bad: func(in ssa.Instruction) bool {
						ret, isRet := in.(*ssa.Return)
						if !isRet || (f.Recover != nil && ret.Block() == f.Recover) {
							return false
						}
						return isErrorExit(ret)
					},
					EdgeOK: func(b *ssa.BasicBlock, i int) bool { return errv == nil || !edgeKnownNonNil(b, i, errv) },
				})
				r.ob("R12.2", p.fname(f)+": a manager obtained from "+p.calleeName(&ac.Call)+" is handed to the session (or released) before any error exit", p.ipos(ac), okp, true,
					"newSession's cleanup releases what the session holds: a mapping that is neither stored nor released on a failing exit stays behind: %s", p.pathString(res))
			}
		}
		r.count("R12.2", "acquisitions stored into "+a.field, nA, 2)
	}
	// createQueueManager: the file is closed on every exit (defer)
	if cq := p.fn("createQueueManager"); cq != nil {
		ok := false
		allInstrs(cq, func(in ssa.Instruction) {
			if d, isD := in.(*ssa.Defer); isD && p.calleeName(&d.Call) == "(*os.File).Close" {
				ok = true
			}
		})
		r.ob("R12.2", "createQueueManager: the queue file is closed on every exit", p.pos(cq.Pos()), ok, true, "")
	}
	r.note("local syscall-failure exits (Ftruncate/Fstat/Mmap failing after MemfdCreate in getGlobalBufferManagerWithMemFd, createQueueManagerWithMemFd, mappingQueueManagerMemfd) do not close the memfd: outside the peer-fault quantifier of the property, not raised")
}

// R12.3
func c12Race(p *P, r *R) {
	ip := p.fn("(*Session).initProtocol")
	if ip == nil {
		r.fail("R12.3", "anchor (*Session).initProtocol", "", "not found")
		return
	}
	var sel *ssa.Select
	allInstrs(ip, func(in ssa.Instruction) {
		if s, ok := in.(*ssa.Select); ok && s.Blocking {
			sel = s
		}
	})
	if sel == nil {
		r.fail("R12.3", "initProtocol: select racing the handshake", p.pos(ip.Pos()), "not found")
		return
	}
	timer := false
	for _, st := range sel.States {
		if isTimerChan(st.Chan, 1) {
			timer = true
		}
	}
	armed := false
	allInstrs(ip, func(in ssa.Instruction) {
		if c, ok := in.(*ssa.Call); ok && p.calleeName(&c.Call) == "time.NewTimer" && isLoadOf(c.Call.Args[0], "Config.InitializeTimeout") && instrDominates(in, sel) {
			armed = true
		}
	})
	r.ob("R12.3", "initProtocol: the exchange is raced against a timer armed with InitializeTimeout", p.ipos(sel), timer && armed, true, "")
	buffered := false
	allInstrs(ip, func(in ssa.Instruction) {
		if mc, ok := in.(*ssa.MakeChan); ok {
			if c, okc := constInt(mc.Size); okc && c >= 1 {
				buffered = true
			}
		}
	})
	r.ob("R12.3", "initProtocol: the result channel is buffered (the abandoned goroutine cannot block)", p.pos(ip.Pos()), buffered, true, "")
	nonBlocking := true
	n := 0
	for _, g := range ip.AnonFuncs {
		allInstrs(g, func(in ssa.Instruction) {
			if _, isSend := in.(*ssa.Send); isSend {
				nonBlocking = false
			}
			if c, ok := in.(*ssa.Call); ok && p.calleeName(&c.Call) == "asyncSendErr" {
				n++
			}
		})
		// every exit of the goroutine reports a result
		res := p.mustPass(g, []Point{{g.Blocks[0], -1}}, p.mCall("asyncSendErr").F, nil, nil)
		r.ob("R12.3", "initProtocol: the handshake goroutine reports a result on every exit", p.pos(g.Pos()), res.OK, true, "%s", p.pathString(res))
	}
	r.ob("R12.3", "initProtocol: the goroutine reports through non-blocking sends only", p.pos(ip.Pos()), nonBlocking && n > 0, true, "")

	// the time-out only bounds what runs in the spawned goroutine: nothing the calling goroutine executes itself
	// (before or after arming the timer) may reach a blocking socket read of the handshake
	blocking := map[*ssa.Function]bool{}
	mSock := p.mCall("golang.org/x/sys/unix.Read", "golang.org/x/sys/unix.Recvmsg", "syscall.Read", "syscall.Recvmsg")
	for _, f := range p.fnList {
		if len(findInstrs(f, mSock)) > 0 {
			blocking[f] = true
		}
	}
	r.count("R12.3", "blocking socket-read primitives", len(blocking), 2)
	cg := p.callGraph()
	reach := map[*ssa.Function]bool{}
	var visit func(f *ssa.Function, depth int) bool
	visit = func(f *ssa.Function, depth int) bool {
		if blocking[f] {
			return true
		}
		if v, ok := reach[f]; ok {
			return v
		}
		reach[f] = false
		if depth <= 0 || f.Pkg != p.Pkg {
			return false
		}
		if nd := cg.Nodes[f]; nd != nil {
			for _, e := range nd.Out {
				if _, isGo := e.Site.(*ssa.Go); isGo {
					continue
				}
				if visit(e.Callee.Func, depth-1) {
					reach[f] = true
					return true
				}
			}
		}
		return false
	}
	okCaller := true
	detail := ""
	if nd := cg.Nodes[ip]; nd != nil {
		for _, e := range nd.Out {
			if _, isGo := e.Site.(*ssa.Go); isGo {
				continue
			}
			if e.Site != nil && e.Site.Parent() == ip && visit(e.Callee.Func, 8) {
				okCaller = false
				detail = p.fname(e.Callee.Func) + " (called at " + p.ipos(e.Site) + ") reaches a blocking socket read outside the timed goroutine"
			}
		}
	} else {
		okCaller = false
		detail = "initProtocol not in the call graph"
	}
	r.ob("R12.3", "initProtocol: every blocking read of the handshake runs inside the goroutine that is raced against the timer", p.pos(ip.Pos()), okCaller, true, "%s", detail)
}

// R12.4
func c12Identity(p *P, r *R) {
	// generator: first path written is the queue's, second the buffer's
	gen := p.fn("(*Session).generateShmMetadata")
	ext := p.fn("(*Session).extractShmMetadata")
	if gen == nil || ext == nil {
		r.fail("R12.4", "anchors generateShmMetadata / extractShmMetadata", "", "not found")
		return
	}
	var order []string
	for _, b := range gen.Blocks {
		for _, in := range b.Instrs {
			if c, ok := isBuiltinCall(in, "copy"); ok {
				src := c.Call.Args[1]
				switch {
				case isLoadOf(stripConv(src), "queueManager.path"):
					order = append(order, "queue")
				case isLoadOf(stripConv(src), "bufferManager.path"):
					order = append(order, "buffer")
				}
			}
		}
	}
	genOK := len(order) == 2 && order[0] == "queue" && order[1] == "buffer"
	// extractor: which result index carries the first / second string?
	// result values are conversions string <- []byte of slices of body; the one whose Low is a constant is the first
	first, second := -1, -1
	for _, ret := range returnsOf(ext) {
		if isErrorExit(ret) {
			continue
		}
		for i := 0; i < 2 && i < len(ret.Results); i++ {
			v := resultOf(ret, i)
			cv, ok := v.(*ssa.Convert)
			if !ok {
				if ph, isPhi := v.(*ssa.Phi); isPhi {
					for _, e := range ph.Edges {
						if c2, ok2 := e.(*ssa.Convert); ok2 {
							cv, ok = c2, true
						}
					}
				}
			}
			if !ok {
				// fields decoded by a local helper `field, rest := g(bytes)`: the call on the function's own parameter
				// yields the first field, the call on the rest handed back by that call the second
				if e, isE := v.(*ssa.Extract); isE {
					if c, isC := e.Tuple.(*ssa.Call); isC && c.Call.StaticCallee() != nil && len(c.Call.Args) > 0 {
						arg := stripConv(c.Call.Args[0])
						if _, isParam := arg.(*ssa.Parameter); isParam {
							first = i
						} else if e2, isE2 := arg.(*ssa.Extract); isE2 {
							if c2, isC2 := e2.Tuple.(*ssa.Call); isC2 && c2.Call.StaticCallee() == c.Call.StaticCallee() {
								if _, isParam2 := stripConv(c2.Call.Args[0]).(*ssa.Parameter); isParam2 {
									second = i
								}
							}
						}
					}
				}
				continue
			}
			if sl, ok := cv.X.(*ssa.Slice); ok {
				if _, isC := constInt(sl.Low); isC {
					first = i
				} else {
					second = i
				}
			}
		}
	}
	// result names: index 0 = bufferPath, index 1 = queuePath (by position in the signature)
	sig := ext.Signature.Results()
	name := func(i int) string {
		if i >= 0 && i < sig.Len() {
			return sig.At(i).Name()
		}
		return "?"
	}
	r.ob("R12.4", "wire order of the two paths agrees: the generator writes queue then buffer", p.pos(gen.Pos()), genOK, true, "found %v", order)
	// consumers: Extract #first -> queue mapper, #second -> buffer mapper
	n := 0
	for _, hn := range []string{"handleShareMemoryByFilePath", "handleShareMemoryByMemFd"} {
		h := p.fn(hn)
		if h == nil {
			r.fail("R12.4", "anchor "+hn, "", "not found")
			continue
		}
		for _, ci := range findInstrs(h, p.mCall("(*Session).extractShmMetadata")) {
			c := ci.(*ssa.Call)
			ex := map[int]ssa.Value{}
			for _, ref := range *c.Referrers() {
				if e, ok := ref.(*ssa.Extract); ok {
					ex[e.Index] = e
				}
			}
			qOK, bOK := false, false
			for _, qi := range findInstrs(h, p.mCall("mappingQueueManager", "mappingQueueManagerMemfd")) {
				if qi.(*ssa.Call).Call.Args[0] == ex[first] {
					qOK = true
				}
			}
			for _, bi := range findInstrs(h, p.mCall("getGlobalBufferManager", "getGlobalBufferManagerWithMemFd")) {
				if bi.(*ssa.Call).Call.Args[0] == ex[second] {
					bOK = true
				}
			}
			n++
			r.ob("R12.4", hn+": the first announced path ("+name(first)+") is mapped as the queue, the second ("+name(second)+") as the buffer", p.ipos(c), first >= 0 && second >= 0 && qOK && bOK, true,
				"the server must map what the client announced, queue<->queue and buffer<->buffer")
		}
	}
	r.count("R12.4", "metadata consumers", n, 2)
	// descriptors: sender passes (buffer fd, queue fd); receiver maps fds[0] as buffer, fds[1] as queue
	snd := p.fn("sendMemFdToPeer")
	rcv := p.fn("handleShareMemoryByMemFd")
	if snd != nil && rcv != nil {
		sOK := false
		allInstrs(snd, func(in ssa.Instruction) {
			c, ok := in.(*ssa.Call)
			if !ok || !strings.HasSuffix(p.calleeName(&c.Call), ".UnixRights") {
				return
			}
			// variadic: stores into the backing array in order
			var seq []string
			allInstrs(snd, func(i2 ssa.Instruction) {
				if st, ok := i2.(*ssa.Store); ok {
					if ia, ok := st.Addr.(*ssa.IndexAddr); ok {
						if _, isAlloc := ia.X.(*ssa.Alloc); isAlloc {
							switch {
							case isLoadOf(st.Val, "bufferManager.memFd"):
								seq = append(seq, "buffer")
							case isLoadOf(st.Val, "queueManager.memFd"):
								seq = append(seq, "queue")
							}
						}
					}
				}
			})
			sOK = len(seq) == 2 && seq[0] == "buffer" && seq[1] == "queue"
		})
		idx := func(v ssa.Value) int64 {
			u, ok := v.(*ssa.UnOp)
			if !ok {
				return -1
			}
			ia, ok := u.X.(*ssa.IndexAddr)
			if !ok {
				return -1
			}
			k, okk := constInt(ia.Index)
			if !okk {
				return -1
			}
			return k
		}
		rq, rb := int64(-1), int64(-1)
		for _, qi := range findInstrs(rcv, p.mCall("mappingQueueManagerMemfd")) {
			rq = idx(qi.(*ssa.Call).Call.Args[1])
		}
		for _, bi := range findInstrs(rcv, p.mCall("getGlobalBufferManagerWithMemFd")) {
			rb = idx(bi.(*ssa.Call).Call.Args[1])
		}
		r.ob("R12.4", "descriptor order agrees: sender passes (buffer, queue), receiver maps fds[0] as buffer and fds[1] as queue", p.pos(rcv.Pos()), sOK && rb == 0 && rq == 1, true,
			"sender ok=%v receiver buffer=fds[%d] queue=fds[%d]", sOK, rb, rq)
	}
	_ = types.Typ
}

// R12.5 handshake duality: for every event type T that one side waits for (waitEventHeader(fd, T)),
// the function of the other side that produces T does so on every success path — a success return
// that skipped the announced message leaves the peer waiting until its timeout while this end
// believes the session is established.
func c12Duality(p *P, r *R) {
	// waited-for types
	waited := map[int64][]string{}
	for _, f := range p.fnList {
		for _, ci := range findInstrs(f, p.mCall("waitEventHeader")) {
			if k, ok := constInt(ci.(*ssa.Call).Call.Args[1]); ok {
				waited[k] = append(waited[k], p.fname(f))
			}
		}
	}
	typeName := map[int64]string{}
	for _, name := range p.TPkg.Scope().Names() {
		if c, ok := p.TPkg.Scope().Lookup(name).(*types.Const); ok && namedName(c.Type()) == "eventType" && strings.HasPrefix(name, "type") {
			v, _ := p.pkgConstInt(name)
			typeName[v] = name
		}
	}
	r.count("R12.5", "message types some side waits for", len(waited), 3)
	for t, waiters := range waited {
		tt := t
		sendsT := M{ID: "send:" + typeName[tt], F: func(in ssa.Instruction) bool {
			c, ok := in.(*ssa.Call)
			if !ok || p.calleeName(&c.Call) != "(header).encode" {
				return false
			}
			k, okk := constInt(c.Call.Args[3])
			return okk && k == tt
		}}
		// producers: functions that encode T directly
		prods := p.functionsWhere(sendsT)
		nOK := 0
		for _, f := range prods {
			isWaiter := false
			for _, w := range waiters {
				if w == p.fname(f) {
					isWaiter = true
				}
			}
			// every success return of the producer has encoded T and written it
			write := p.mCall("blockWriteFull")
			okp, res := p.findBadPath(f, []Point{{f.Blocks[0], -1}}, pathOpts{
				Discharge: sendsT.F,
				Bad: func(in ssa.Instruction) bool {
					ret, isRet := in.(*ssa.Return)
					if !isRet || (f.Recover != nil && ret.Block() == f.Recover) {
						return false
					}
					return !isErrorExit(ret)
				},
			})
			wrote := false
			for _, ei := range findInstrs(f, sendsT) {
				for _, wi := range findInstrs(f, write) {
					if p.reaches(ei, wi, nil) {
						wrote = true
					}
				}
			}
			nOK++
			role := "peer of " + strings.Join(waiters, ", ")
			if isWaiter {
				// a function that both sends and awaits T (symmetric exchange): the send precedes the wait
				okOrder := true
				for _, wi := range findInstrs(f, p.mCall("waitEventHeader")) {
					if k, okk := constInt(wi.(*ssa.Call).Call.Args[1]); !okk || k != tt {
						continue
					}
					dom := false
					for _, ei := range findInstrs(f, sendsT) {
						if instrDominates(ei, wi) {
							dom = true
						}
					}
					if !dom {
						okOrder = false
					}
				}
				r.ob("R12.5", p.fname(f)+": sends its own "+typeName[tt]+" before it waits for the peer's", p.pos(f.Pos()), okOrder && wrote, true, "")
				continue
			}
			r.ob("R12.5", p.fname(f)+": every success exit has sent "+typeName[tt]+" ("+role+")", p.pos(f.Pos()), okp && wrote, true,
				"a success return that skips the message leaves the peer in waitEventHeader until its timeout while this end reports success: %s", p.pathString(res))
		}
		r.count("R12.5", "producers of "+typeName[tt], nOK, 1)
	}
	// the server's v3 path answers the version exchange: serverInit reaches handleExchangeVersion on every success path
	if si := p.fn("(*protocolInitializerV3).serverInit"); si != nil {
		okp, res := p.findBadPath(si, []Point{{si.Blocks[0], -1}}, pathOpts{
			Discharge: p.mCall("handleExchangeVersion").F,
			Bad: func(in ssa.Instruction) bool {
				ret, isRet := in.(*ssa.Return)
				return isRet && !isErrorExit(ret)
			},
		})
		r.ob("R12.5", "(*protocolInitializerV3).serverInit: every success exit answered the version exchange", p.pos(si.Pos()), okp, true, "%s", p.pathString(res))
	}
}

// c12MapperNeverCreates (R12.8): only the side that lays the shared memory out may create the backing file. A mapping
// function that opens the announced path with O_CREATE manufactures an empty file when the peer's file is missing
// (peer gone, foreign path): the handshake then fails as it should, but leaves a file behind that nobody owns.
// Rule: every os.OpenFile whose flags contain O_CREATE sits in a function that runs a creator role (free-list
// creator, or the queue creator = the function that stores the initial head/tail).
func c12MapperNeverCreates(p *P, r *R) {
	oCreate := int64(-1)
	if lp := p.LPkg.Imports["os"]; lp != nil && lp.Types != nil {
		if c, ok := lp.Types.Scope().Lookup("O_CREATE").(*types.Const); ok {
			if v, okv := constant.Int64Val(constant.ToInt(c.Val())); okv {
				oCreate = v
			}
		}
	}
	if oCreate <= 0 {
		r.fail("R12.8", "constant os.O_CREATE", "", "not resolved")
		return
	}
	var creators []string
	for _, c := range p.freeListRoles().creators {
		creators = append(creators, p.fname(c))
	}
	for _, f := range p.fnList {
		plain := false
		allInstrs(f, func(in ssa.Instruction) {
			if st, ok := in.(*ssa.Store); ok {
				if w := wordOf(st.Addr); w == "*queue.head" || w == "*queue.tail" {
					plain = true
				}
			}
		})
		if plain {
			creators = append(creators, p.fname(f))
		}
	}
	r.count("R12.8", "creator roles (free lists, queue)", len(creators), 2)
	mCreator := p.mCall(creators...)
	var mappers []string
	for _, m := range p.freeListRoles().mappers {
		mappers = append(mappers, p.fname(m))
	}
	mMapper := p.mCall(mappers...)
	n := 0
	for _, f := range p.fnList {
		for _, ci := range findInstrs(f, p.mCall("os.OpenFile")) {
			fl, okc := constInt(ci.(*ssa.Call).Call.Args[1])
			if okc && fl&oCreate == 0 {
				continue
			}
			n++
			ok := p.may(f, mCreator, 3)
			detail := ""
			if !okc {
				detail = "flags not constant"
			} else if !ok {
				// an open helper: judged at its call sites (each must lie in a function that runs a creator, and no
				// mapping-only step may follow it)
				sites := 0
				ok = true
				if len(findInstrs(f, p.mCall("syscall.Mmap", "golang.org/x/sys/unix.Mmap"))) > 0 || p.may(f, mMapper, 3) {
					ok = false // not a mere open helper: it maps what it opened, without ever creating the layout
				}
				for _, g := range p.fnList {
					if !ok {
						break
					}
					for _, si := range findInstrs(g, p.mCall(p.fname(f))) {
						sites++
						if !p.may(g, mCreator, 3) {
							ok = false
						} else if okp, _ := p.findBadPath(g, []Point{pointOf(si)}, pathOpts{StartFacts: true, Bad: func(in ssa.Instruction) bool {
							if _, isCall := in.(*ssa.Call); !isCall {
								return false
							}
							return p.evMay(in, mMapper, 3) && !p.evMay(in, mCreator, 3)
						}}); !okp {
							ok = false
						}
					}
				}
				if sites == 0 {
					ok = false
				}
				if !ok {
					detail = "neither the function nor all of its callers run a creator"
				}
			} else {
				// and what was opened for creation is never handed to a mapping-only step (branch-consistent from the open)
				okp, res := p.findBadPath(f, []Point{pointOf(ci)}, pathOpts{StartFacts: true, Bad: func(in ssa.Instruction) bool {
					if _, isCall := in.(*ssa.Call); !isCall {
						return false
					}
					return p.evMay(in, mMapper, 3) && !p.evMay(in, mCreator, 3)
				}})
				if !okp {
					ok, detail = false, "a path from this open reaches a mapping-only step: "+p.pathString(res)
				}
			}
			r.ob("R12.8", p.fname(f)+": a file is opened with O_CREATE only by a function that lays the shared memory out", p.ipos(ci), ok && okc, true, "%s", detail)
		}
	}
	r.count("R12.8", "os.OpenFile sites with O_CREATE", n, 2)
}
