package main

import (
	"go/token"

	"golang.org/x/tools/go/ssa"
)

func init() {
	register(&property{
		ID: "C02",
		Explanation: "Decides structural necessary conditions of 'no buffer lost or duplicated': every failure exit of the popper re-increments the free count exactly once and the success exit never does; " +
			"the pusher counts each pushed slot exactly once and only after it is linked; chain walkers read a slice's link before recycling it; recycleBuffer pushes a slice to at most one list; " +
			"and, because recycling selects the size class by equality on the capacity, configuration validation rejects duplicate slice sizes before any buffer manager is created. " +
			"NOT decided: agreement of chain and counter at quiescence under all interleavings, 'free + held <= capacity' at every instant.",
		RuleText: "R02.1 path classes of the popper from the size-1 reservation to each return; R02.2 paths of the pusher; R02.3 per recycleBuffer call in functions that also follow links; R02.4 class-selection agreement between recycleBuffer and VerifyConfig/newSession; R02.5 per push call in recycleBuffer.",
		Run:      runC02,
	})
}

// addConst matches atomic.AddInt32(word, c).
func (p *P) mAtomicAddConst(word string, c int64) M {
	base := p.mAtomic("Add", word)
	return M{ID: base.ID + ":" + itoa(c), F: func(in ssa.Instruction) bool {
		if !base.F(in) {
			return false
		}
		v, ok := constInt(in.(*ssa.Call).Call.Args[1])
		return ok && v == c
	}}
}

func itoa(i int64) string {
	if i < 0 {
		return "-" + itoa(-i)
	}
	if i < 10 {
		return string(rune('0' + i))
	}
	return itoa(i/10) + string(rune('0'+i%10))
}

// reachable: is there a path from right after `from` to `to`, avoiding edges into blocks in cut.
func (p *P) reaches(from ssa.Instruction, to ssa.Instruction, cut map[*ssa.BasicBlock]bool) bool {
	return p.reachesWithout(pointOf(from), to, nil, func(b *ssa.BasicBlock, i int) bool { return !cut[b.Succs[i]] })
}

func runC02(p *P, r *R) {
	fr := p.freeListRoles()
	r.role("popper", p.names(fr.poppers))
	r.role("pusher", p.names(fr.pushers))
	r.count("R02.1", "popper functions", len(fr.poppers), 1)
	r.count("R02.2", "pusher functions", len(fr.pushers), 1)
	dec := p.mAtomicAddConst("*bufferList.size", -1)
	inc := p.mAtomicAddConst("*bufferList.size", 1)

	for _, f := range fr.poppers {
		fn := p.fname(f)
		decs := findInstrs(f, dec)
		incs := findInstrs(f, inc)
		r.count("R02.1", "size-1 reservation in "+fn, len(decs), 1)
		// any other Add on size with a different constant is not understood
		for _, ai := range findInstrs(f, p.mAtomic("Add", "*bufferList.size")) {
			if !dec.F(ai) && !inc.F(ai) {
				r.fail("R02.1", fn+": Add on size with an operand other than +1/-1", p.ipos(ai), "cannot account for the free count")
			}
		}
		for _, d := range decs {
			// (a) every nil return is preceded by a compensation
			res := p.mustPass(f, []Point{pointOf(d)}, inc.F, nil, func(ret *ssa.Return, pred *ssa.BasicBlock) bool {
				return len(ret.Results) > 0 && isNilConst(ret.Results[0])
			})
			r.ob("R02.1", fn+": every failure exit restores the free count", p.ipos(d), res.OK, true,
				"a path from the reservation to a return of a nil slice passes no AddInt32(size,+1): %s", p.pathString(res))
		}
		for _, i1 := range incs {
			// (b) no double compensation
			for _, i2 := range incs {
				if p.reaches(i1, i2, nil) {
					r.fail("R02.1", fn+": free count restored twice on one path", p.ipos(i2), "AddInt32(size,+1) at %s can be followed by the one at %s", p.ipos(i1), p.ipos(i2))
				}
			}
			// (c) the success exit does not compensate
			bad := false
			for _, ret := range returnsOf(f) {
				if len(ret.Results) > 0 && !isNilConst(ret.Results[0]) && p.reaches(i1, ret, nil) {
					bad = true
				}
			}
			r.ob("R02.1", fn+": compensation never reaches the success exit", p.ipos(i1), !bad, true,
				"an AddInt32(size,+1) followed by a non-nil return would count a handed-out slot as free")
		}
		// (d) reservation happens once
		for _, d1 := range decs {
			for _, d2 := range decs {
				if p.reaches(d1, d2, nil) {
					r.fail("R02.1", fn+": reservation repeated on one path", p.ipos(d2), "AddInt32(size,-1) twice")
				}
			}
		}
		// success exit must have reserved
		for _, ret := range returnsOf(f) {
			if len(ret.Results) > 0 && !isNilConst(ret.Results[0]) {
				ok := false
				for _, d := range decs {
					if instrDominates(d, ret) {
						ok = true
					}
				}
				r.ob("R02.1", fn+": a handed-out slot was subtracted from the free count", p.ipos(ret), ok, true, "AddInt32(size,-1) must dominate the non-nil return")
			}
		}
	}

	for _, f := range fr.pushers {
		fn := p.fname(f)
		incs := findInstrs(f, inc)
		res := p.mustPass(f, []Point{{f.Blocks[0], -1}}, inc.F, nil, nil)
		r.ob("R02.2", fn+": every push counts the slot", p.pos(f.Pos()), res.OK, true, "%s", p.pathString(res))
		for _, i1 := range incs {
			for _, i2 := range incs {
				if p.reaches(i1, i2, nil) {
					r.fail("R02.2", fn+": pushed slot counted twice", p.ipos(i2), "AddInt32(size,+1) at %s can be followed by the one at %s", p.ipos(i1), p.ipos(i2))
				}
			}
			linked := false
			for _, li := range findInstrs(f, p.mCall("(bufferHeader).linkNext")) {
				if instrDominates(li, i1) {
					linked = true
				}
			}
			r.ob("R02.2", fn+": slot is counted only after it is linked", p.ipos(i1), linked, true,
				"counting before linking lets poppers in while the chain does not reach the slot yet")
		}
		for _, ai := range findInstrs(f, p.mAtomic("Add", "*bufferList.size")) {
			if !inc.F(ai) {
				r.fail("R02.2", fn+": Add on size with an operand other than +1", p.ipos(ai), "cannot account for the free count")
			}
		}
	}

	// R02.3 chain walkers
	linkReadBeforeRecycle(p, r, "R02.3")

	// R02.6 the slot reader used by chain walkers accepts every slot the creator lays out
	if f := p.fn("(*bufferManager).readBufferSlice"); f != nil {
		guardTightness(p, r, "R02.6", []*ssa.Function{f}, 2)
	} else {
		r.fail("R02.6", "anchor (*bufferManager).readBufferSlice", "", "function not found")
	}

	// R02.8 the free chain can only be walked and re-linked correctly if creator, mapper and accessors agree on the
	// link/flag words, the stride and the per-class loop (shared with C03)
	borrow(p, r, "C03", runC03, map[string]string{"R03.1": "R02.8", "R03.2": "R02.8", "R03.7": "R02.8"}, func(o Ob) bool {
		return constructHas(o, "free-list header", "slot header", "(bufferHeader)", "stride", "initial tail", "countBufferListMemSize", "every size class", "advances to the next list")
	})

	walkerRecyclesHead(p, r, "R02.10")
	// R02.12 a buffer that mixes shared-memory and heap slices gives its shared-memory slices back (shared with C09 R09.13 / R09.12)
	borrow(p, r, "C09", runC09, map[string]string{"R09.13": "R02.12", "R09.12": "R02.12"}, nil)
	// R02.9 a slot that re-enters the free chain carries no stale link (shared with C01 R01.5): the chain must end at the tail
	borrow(p, r, "C01", runC01, map[string]string{"R01.5": "R02.9", "R01.8": "R02.9", "R01.14": "R02.9"}, nil)

	// R02.7 the head CAS must not be ABA-prone: a stale popper's CAS detaches the rest of the chain (buffers lost)
	abaRule(p, r, "R02.7")

	// R02.5 at most one push per recycleBuffer call
	rb := p.fn("(*bufferManager).recycleBuffer")
	if rb == nil {
		r.fail("R02.5", "anchor (*bufferManager).recycleBuffer", "", "function not found")
	} else {
		var pushes []ssa.Instruction
		for _, g := range fr.pushers {
			pushes = append(pushes, findInstrs(rb, p.mCall(p.fname(g)))...)
		}
		r.count("R02.5", "push calls in recycleBuffer", len(pushes), 1)
		for _, a := range pushes {
			dup := false
			for _, b := range pushes {
				if p.reaches(a, b, nil) {
					dup = true
				}
			}
			r.ob("R02.5", "(*bufferManager).recycleBuffer: a slice is pushed to at most one list", p.ipos(a), !dup, true, "a push that can be followed by another push duplicates the slot")
		}
		// R02.4 equality selection => distinctness guard in the creation path
		selectsByEq := false
		allInstrs(rb, func(in ssa.Instruction) {
			if b, ok := in.(*ssa.BinOp); ok && (b.Op == token.EQL || b.Op == token.NEQ) {
				l, rr := b.X, b.Y
				capLoad := func(v ssa.Value) bool { return isLoadOf(v, "bufferSlice.cap") }
				perLoad := func(v ssa.Value) bool {
					u, ok := stripConv(v).(*ssa.UnOp)
					return ok && u.Op == token.MUL && isLoadOf(u.X, "bufferList.capPerBuffer")
				}
				if (capLoad(l) && perLoad(rr)) || (capLoad(rr) && perLoad(l)) {
					selectsByEq = true
				}
			}
		})
		if !selectsByEq {
			r.note("recycleBuffer does not select the class by equality on cap; R02.4 distinctness obligation not generated")
			r.ob("R02.4", "class selection: recycleBuffer does not rely on distinct sizes", p.pos(rb.Pos()), true, false, "")
		} else {
			c02Distinct(p, r)
		}
	}
}

// c02Distinct: a comparison of two SizePercentPair.Size loads whose equal edge returns an error,
// in the configuration validator, which newSession calls before creating the memory managers.
func c02Distinct(p *P, r *R) {
	vc := p.fn("VerifyConfig")
	if vc == nil {
		r.fail("R02.4", "anchor VerifyConfig", "", "exported function not found")
		return
	}
	found := false
	where, partial := "", ""
	var scan func(f *ssa.Function, depth int)
	seen := map[*ssa.Function]bool{}
	scan = func(f *ssa.Function, depth int) {
		if f == nil || seen[f] || depth < 0 {
			return
		}
		seen[f] = true
		for _, b := range f.Blocks {
			ifi := blockIf(b)
			if ifi == nil {
				continue
			}
			c, neg := stripNot(ifi.Cond)
			bo, ok := c.(*ssa.BinOp)
			if !ok || (bo.Op != token.EQL && bo.Op != token.NEQ) {
				continue
			}
			if !isLoadOf(bo.X, "SizePercentPair.Size") || !isLoadOf(bo.Y, "SizePercentPair.Size") {
				continue
			}
			eqEdge := 0
			if (bo.Op == token.NEQ) != neg {
				eqEdge = 1
			}
			// the equal edge must lead (without branching back) to a return of a non-nil error
			tb := b.Succs[eqEdge]
			if ret, ok := tb.Instrs[len(tb.Instrs)-1].(*ssa.Return); ok && len(ret.Results) > 0 && definitelyNonNil(ret.Results[len(ret.Results)-1]) {
				// ... and the comparison must range over all pairs: the two operands are driven by two different loop
				// variables (nested loops), or the slice was sorted before (then neighbours suffice)
				px, py := loopVars(bo.X, 8), loopVars(bo.Y, 8)
				independent := false
				for x := range px {
					for y := range py {
						if x != y && x.Block() != y.Block() {
							independent = true
						}
					}
				}
				sorted := false
				for _, si := range findInstrs(f, p.mCall("sort.Sort", "sort.Slice", "sort.SliceStable", "sort.Stable")) {
					if instrDominates(si, ifi) {
						sorted = true
					}
				}
				if independent || sorted {
					found = true
					where = p.ipos(ifi)
				} else {
					partial = p.ipos(ifi)
				}
			}
		}
		// alternative idiom: a set of the sizes seen so far (`if seen[size] { return err }; seen[size] = true`)
		for _, b := range f.Blocks {
			ifi := blockIf(b)
			if ifi == nil {
				continue
			}
			c, neg := stripNot(ifi.Cond)
			var lk *ssa.Lookup
			switch x := c.(type) {
			case *ssa.Lookup:
				lk = x
			case *ssa.Extract:
				lk, _ = x.Tuple.(*ssa.Lookup)
			}
			if lk == nil || !isLoadOf(stripConv(lk.Index), "SizePercentPair.Size") {
				continue
			}
			hitEdge := 0
			if neg {
				hitEdge = 1
			}
			tb := b.Succs[hitEdge]
			ret, ok := tb.Instrs[len(tb.Instrs)-1].(*ssa.Return)
			if !ok || len(ret.Results) == 0 || !definitelyNonNil(ret.Results[len(ret.Results)-1]) {
				continue
			}
			recorded := false
			allInstrs(f, func(in ssa.Instruction) {
				if mu, ok := in.(*ssa.MapUpdate); ok && mu.Map == lk.X && isLoadOf(stripConv(mu.Key), "SizePercentPair.Size") {
					recorded = true
				}
			})
			if recorded {
				found = true
				where = p.ipos(ifi)
			}
		}
		allInstrs(f, func(in ssa.Instruction) {
			if g := p.localCallee(in); g != nil {
				scan(g, depth-1)
			}
		})
	}
	scan(vc, 2)
	r.ob("R02.4", "configuration validation rejects duplicate slice sizes (recycling selects the class by cap equality)", where, found, true,
		"allocation picks a list by order, recycling by equality on cap: they agree only if all sizes are pairwise distinct; need `if a.Size == b.Size { return err }` over all pairs in VerifyConfig (a comparison of neighbours only was found at %q)", partial)
	ns := p.fn("newSession")
	if ns == nil {
		r.fail("R02.4", "anchor newSession", "", "function not found")
		return
	}
	ok := false
	for _, vi := range findInstrs(ns, p.mCall("VerifyConfig")) {
		for _, mi := range p.sitesMay(ns, p.mCall("createBufferManager"), inlineDepth+1) {
			if instrDominates(vi, mi) {
				// the creation must be on the err == nil edge
				for _, fct := range factsAt(mi.Block()) {
					if bo, ok2 := fct.Cond.(*ssa.BinOp); ok2 && (bo.X == vi.(ssa.Value) || bo.Y == vi.(ssa.Value)) {
						if (bo.Op == token.NEQ && !fct.Truth) || (bo.Op == token.EQL && fct.Truth) {
							ok = true
						}
					}
				}
			}
		}
	}
	r.ob("R02.4", "newSession validates the configuration before creating the buffer manager", p.pos(ns.Pos()), ok, true,
		"VerifyConfig(config) == nil must dominate the path that reaches createBufferManager")
}

// linkReadBeforeRecycle (R02.3 / R01.10): once a slice has been given back (recycleBuffer -> push) its
// header belongs to the free list and to the next releaser; code that walks a chain must read the
// slice's link before it recycles the slice and must not touch the header afterwards.
func linkReadBeforeRecycle(p *P, r *R, rule string) {
	recyc := p.mCall("(*bufferManager).recycleBuffer")
	linkRead := p.mCall("(bufferHeader).nextBufferOffset", "(bufferHeader).hasNext")
	nWalk := 0
	for _, f := range p.fnList {
		if len(findInstrs(f, recyc)) == 0 || len(findInstrs(f, p.mCall("(bufferHeader).nextBufferOffset"))) == 0 {
			continue
		}
		fn := p.fname(f)
		r.Scope[fn] = true
		for _, ri := range findInstrs(f, recyc) {
			rc := ri.(*ssa.Call)
			x := rc.Call.Args[len(rc.Call.Args)-1]
			cut := map[*ssa.BasicBlock]bool{}
			if xi, ok := x.(ssa.Instruction); ok && xi.Block() != nil {
				cut[xi.Block()] = true // re-entering the defining block re-defines x (loop iteration)
			}
			bad := ""
			for _, li := range findInstrs(f, linkRead) {
				lc := li.(*ssa.Call)
				if derivedFrom(lc.Call.Args[0], func(v ssa.Value) bool { return v == x }, 6) && p.reaches(rc, lc, cut) {
					bad = p.ipos(lc)
				}
			}
			nWalk++
			r.ob(rule, fn+": link of a slice is read before the slice is recycled", p.ipos(rc), bad == "", true,
				"recycling resets the header; reading hasNext/nextBufferOffset of the same slice afterwards (at %s) loses the rest of the chain", bad)
		}
	}
	r.count(rule, "recycle sites in chain walkers", nWalk, 2)

}

// walkerRecyclesHead (R02.10 / R09.10): a chain walker that is handed a shared-memory chain gives it back: from the
// entry, every path on which the head is non-nil and from shared memory passes a recycleBuffer call before returning.
// An extra condition in front of the walk (a flag of the head, a state test) silently drops whole chains.
func walkerRecyclesHead(p *P, r *R, rule string) {
	recyc := p.mCall("(*bufferManager).recycleBuffer")
	n := 0
	for _, f := range p.fnList {
		if len(findInstrs(f, recyc)) == 0 || len(findInstrs(f, p.mCall("(bufferHeader).nextBufferOffset"))) == 0 {
			continue
		}
		var head *ssa.Parameter
		for _, prm := range f.Params {
			if namedName(prm.Type()) == "bufferSlice" {
				head = prm
			}
		}
		if head == nil {
			continue
		}
		n++
		isHead := func(v ssa.Value) bool { return v == ssa.Value(head) }
		isHeadShm := func(v ssa.Value) bool {
			fa, ok := loadOfField(v)
			return ok && fieldKey(fa) == "bufferSlice.isFromShm" && fa.X == ssa.Value(head)
		}
		res := p.mustPass(f, []Point{{f.Blocks[0], -1}}, func(in ssa.Instruction) bool { return p.evMust(in, recyc, 1) },
			func(b *ssa.BasicBlock, i int) bool {
				ifi := blockIf(b)
				if ifi == nil {
					return true
				}
				if relOn(ifi.Cond, i == 0, isHead, isNilConst) == "==" {
					return false // nothing handed in
				}
				cond, neg := stripNot(ifi.Cond)
				if isHeadShm(cond) && (i == 0) == neg {
					return false // not shared memory: nothing to give back
				}
				return true
			}, nil)
		r.ob(rule, p.fname(f)+": a non-nil shared-memory chain handed to the walker is recycled on every path", p.pos(f.Pos()), res.OK, true,
			"a further condition in front of the walk drops the whole chain: %s", p.pathString(res))
	}
	r.count(rule, "chain walkers with a head parameter", n, 1)
}

// loopVars: the loop-carried values (phis of loop headers, range iterators) a value is computed from.
func loopVars(v ssa.Value, depth int) map[ssa.Instruction]bool {
	out := map[ssa.Instruction]bool{}
	seen := map[ssa.Value]bool{}
	var walk func(v ssa.Value, d int)
	walk = func(v ssa.Value, d int) {
		if v == nil || d < 0 || seen[v] {
			return
		}
		seen[v] = true
		switch x := v.(type) {
		case *ssa.Phi:
			out[x] = true
		case *ssa.Next:
			out[x] = true
		case *ssa.Extract:
			walk(x.Tuple, d-1)
		case *ssa.UnOp:
			walk(x.X, d-1)
		case *ssa.FieldAddr:
			walk(x.X, d-1)
		case *ssa.IndexAddr:
			walk(x.X, d-1)
			walk(x.Index, d-1)
		case *ssa.Index:
			walk(x.X, d-1)
			walk(x.Index, d-1)
		case *ssa.BinOp:
			walk(x.X, d-1)
			walk(x.Y, d-1)
		case *ssa.Slice:
			walk(x.X, d-1)
		case *ssa.Convert:
			walk(x.X, d-1)
		case *ssa.Lookup:
			walk(x.X, d-1)
			walk(x.Index, d-1)
		}
	}
	walk(v, depth)
	return out
}
