package main

import (
	"fmt"
	"go/token"
	"go/types"
	"sort"
	"strings"

	"golang.org/x/tools/go/ssa"
)

// rawAcc is one raw access into a byte slice: either an unsafe cast (*T)(unsafe.Pointer(&x[idx]))
// that is loaded / stored through / bound to a struct field, or a plain byte index x[idx].
type rawAcc struct {
	In    ssa.Instruction
	Kind  string    // "load", "store", "bind:<field>" (pointer stored into a struct field), "addr" (other use)
	Base  ssa.Value // the slice indexed
	Sym   ssa.Value // symbolic part of the index (nil if constant)
	K     int64     // constant part of the index
	Width int64
	Val   ssa.Value // stored value (store) / loaded value (load)
}

func (a rawAcc) String() string { return fmt.Sprintf("%s@%d/%d", a.Kind, a.K, a.Width) }

func splitConst(idx ssa.Value) (ssa.Value, int64) {
	idx = stripConv(idx)
	if c, ok := constInt(idx); ok {
		return nil, c
	}
	if b, ok := idx.(*ssa.BinOp); ok && b.Op == token.ADD {
		if c, ok := constInt(b.Y); ok {
			s, k := splitConst(b.X)
			return s, k + c
		}
		if c, ok := constInt(b.X); ok {
			s, k := splitConst(b.Y)
			return s, k + c
		}
	}
	return idx, 0
}

func sizeofBasic(t types.Type) int64 {
	if b, ok := t.Underlying().(*types.Basic); ok {
		switch b.Kind() {
		case types.Int8, types.Uint8, types.Bool:
			return 1
		case types.Int16, types.Uint16:
			return 2
		case types.Int32, types.Uint32, types.Float32:
			return 4
		case types.Int64, types.Uint64, types.Float64, types.Int, types.Uint, types.Uintptr:
			return 8
		}
	}
	return 0
}

// castOf: v is Convert(*T <- unsafe.Pointer)(Convert(unsafe.Pointer <- *byte)(IndexAddr)).
func castOf(v ssa.Value) (*ssa.IndexAddr, int64, bool) {
	c1, ok := v.(*ssa.Convert)
	if !ok {
		return nil, 0, false
	}
	pt, ok := c1.Type().Underlying().(*types.Pointer)
	if !ok {
		return nil, 0, false
	}
	c2, ok := c1.X.(*ssa.Convert)
	if !ok {
		return nil, 0, false
	}
	if b, ok := c2.Type().Underlying().(*types.Basic); !ok || b.Kind() != types.UnsafePointer {
		return nil, 0, false
	}
	ia, ok := c2.X.(*ssa.IndexAddr)
	if !ok {
		return nil, 0, false
	}
	w := sizeofBasic(pt.Elem())
	if w == 0 {
		return nil, 0, false
	}
	return ia, w, true
}

// isByteSlice: []byte or a named type whose underlying type is []byte.
func isByteSlice(t types.Type) bool {
	s, ok := t.Underlying().(*types.Slice)
	if !ok {
		return false
	}
	b, ok := s.Elem().Underlying().(*types.Basic)
	return ok && b.Kind() == types.Uint8
}

// rawAccesses lists the raw accesses of fn into byte slices.
func rawAccesses(fn *ssa.Function) []rawAcc {
	var out []rawAcc
	refsOf := func(v ssa.Value) []ssa.Instruction {
		if r := v.Referrers(); r != nil {
			return *r
		}
		return nil
	}
	allInstrs(fn, func(in ssa.Instruction) {
		switch x := in.(type) {
		case *ssa.Convert:
			ia, w, ok := castOf(x)
			if !ok || !isByteSlice(ia.X.Type()) {
				return
			}
			sym, k := splitConst(ia.Index)
			used := false
			for _, ref := range refsOf(x) {
				switch u := ref.(type) {
				case *ssa.UnOp:
					if u.Op == token.MUL {
						out = append(out, rawAcc{In: u, Kind: "load", Base: ia.X, Sym: sym, K: k, Width: w, Val: u})
						used = true
					}
				case *ssa.Store:
					if u.Addr == x {
						out = append(out, rawAcc{In: u, Kind: "store", Base: ia.X, Sym: sym, K: k, Width: w, Val: u.Val})
						used = true
					} else if u.Val == x {
						if fk := fieldKey(u.Addr); fk != "" {
							out = append(out, rawAcc{In: u, Kind: "bind:" + fk, Base: ia.X, Sym: sym, K: k, Width: w})
							used = true
						}
					}
				}
			}
			if !used {
				out = append(out, rawAcc{In: x, Kind: "addr", Base: ia.X, Sym: sym, K: k, Width: w})
			}
		case *ssa.IndexAddr:
			if !isByteSlice(x.X.Type()) {
				return
			}
			sym, k := splitConst(x.Index)
			for _, ref := range refsOf(x) {
				switch u := ref.(type) {
				case *ssa.UnOp:
					if u.Op == token.MUL {
						out = append(out, rawAcc{In: u, Kind: "load", Base: x.X, Sym: sym, K: k, Width: 1, Val: u})
					}
				case *ssa.Store:
					if u.Addr == x {
						out = append(out, rawAcc{In: u, Kind: "store", Base: x.X, Sym: sym, K: k, Width: 1, Val: u.Val})
					}
				}
			}
		}
	})
	return out
}

func accSet(as []rawAcc, filter func(rawAcc) bool) string {
	var ss []string
	for _, a := range as {
		if filter == nil || filter(a) {
			ss = append(ss, a.String())
		}
	}
	sort.Strings(ss)
	// dedupe
	var out []string
	for i, s := range ss {
		if i == 0 || ss[i-1] != s {
			out = append(out, s)
		}
	}
	return strings.Join(out, " ")
}
