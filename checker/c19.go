package main

import (
	"go/types"

	"golang.org/x/tools/go/ssa"
)

func init() {
	register(&property{
		ID: "C19",
		Explanation: "Decides the structural obligations of the net.Listener/net.Conn adapter: every wrapped stream (which holds a reference on its session's wait group) is either delivered to the backlog or closed on every path; wait-group arithmetic is paired — Add(1) at session registration and per wrapped stream, Done() only once per Add (CAS-once in streamWrapper.Close, map-membership test + delete under the listener mutex for the listener's own reference, drain + map reset under the mutex in Close); " +
			"Read/Write/deadline methods forward to the stream's copy paths with the caller's buffer, Write flushes what it buffered, Read waits for at least one byte; Accept and the per-session loop have a close/shutdown arm. NOT decided: exactly-once surfacing of streams, io.Reader/io.Writer contracts for all sizes (C06), close orders.",
		RuleText: "R19.1 path search from every select that offers a newStreamWrapper result to the backlog; R19.2 census and classification of every WaitGroup.Add/Done in listener code; R19.3 delegation identity of streamWrapper methods and of the copy paths; R19.4 escape arms.",
		Run:      runC19,
	})
}

// selectEdge: the If at the end of b tests `index of sel == k`; returns sel, k and whether edge i is the equal edge.
func selectEdge(b *ssa.BasicBlock, i int) (*ssa.Select, int64, bool) {
	ifi := blockIf(b)
	if ifi == nil {
		return nil, 0, false
	}
	var sel *ssa.Select
	isIdx := func(v ssa.Value) bool {
		e, ok := v.(*ssa.Extract)
		if !ok || e.Index != 0 {
			return false
		}
		s, ok := e.Tuple.(*ssa.Select)
		if ok {
			sel = s
		}
		return ok
	}
	for k := int64(0); k < 8; k++ {
		kk := k
		isK := func(v ssa.Value) bool { c, ok := constInt(v); return ok && c == kk }
		switch relOn(ifi.Cond, i == 0, isIdx, isK) {
		case "==":
			return sel, kk, true
		case "!=":
			return sel, kk, false
		}
	}
	return nil, 0, false
}

func isListenerCode(p *P, f *ssa.Function) bool {
	for g := f; g != nil; g = g.Parent() {
		if recv := g.Signature.Recv(); recv != nil {
			n := namedName(recv.Type())
			if n == "listener" || n == "streamWrapper" {
				return true
			}
		}
		if g.Name() == "newStreamWrapper" || g.Name() == "newListener" {
			return true
		}
	}
	return false
}

func runC19(p *P, r *R) {
	nsw := p.fn("newStreamWrapper")
	if nsw == nil {
		r.fail("R19.1", "anchor newStreamWrapper", "", "not found")
		return
	}
	// ---- R19.1
	n := 0
	for _, f := range p.fnList {
		for _, ci := range findInstrs(f, p.mCall("newStreamWrapper")) {
			x := ssa.Value(ci.(*ssa.Call))
			fn := p.fname(f)
			r.Scope[fn] = true
			// selects that offer x to a channel
			var sels []*ssa.Select
			sendIdx := map[*ssa.Select]int64{}
			allInstrs(f, func(in ssa.Instruction) {
				if sel, ok := in.(*ssa.Select); ok {
					for i, st := range sel.States {
						if st.Dir == types.SendOnly && st.Send == x {
							sels = append(sels, sel)
							sendIdx[sel] = int64(i)
						}
					}
				}
			})
			delivered := len(sels) > 0
			allInstrs(f, func(in ssa.Instruction) {
				if s, ok := in.(*ssa.Send); ok && s.X == x {
					delivered = true
				}
			})
			n++
			r.ob("R19.1", fn+": a wrapped stream is offered to the backlog", p.ipos(ci), delivered, true, "")
			isClose := func(in ssa.Instruction) bool {
				c, ok := in.(*ssa.Call)
				return ok && c.Call.IsInvoke() && c.Call.Method.Name() == "Close" && c.Call.Value == x
			}
			for _, sel := range sels {
				okp, res := p.findBadPath(f, []Point{pointOf(sel)}, pathOpts{
					Discharge: isClose,
					Bad: func(in ssa.Instruction) bool {
						if _, isRet := in.(*ssa.Return); isRet {
							return true
						}
						return in == ci // next iteration
					},
					EdgeOK: func(b *ssa.BasicBlock, i int) bool {
						s, k, eq := selectEdge(b, i)
						if s == sel && k == sendIdx[sel] && eq {
							return false // delivered
						}
						return true
					},
				})
				r.ob("R19.1", fn+": a wrapped stream that is not delivered is closed (its session reference released)", p.ipos(sel), okp, true,
					"an undelivered conn that is dropped keeps the session's wait group from draining: the session is never closed: %s", p.pathString(res))
			}
		}
	}
	r.count("R19.1", "newStreamWrapper call sites", n, 1)

	// ---- R19.2 wait-group census
	nAdd, nDone := 0, 0
	for _, f := range p.fnList {
		if !isListenerCode(p, f) {
			continue
		}
		fn := p.fname(f)
		for _, ci := range findInstrs(f, p.mCall("(*sync.WaitGroup).Add")) {
			nAdd++
			c, _ := constInt(ci.(*ssa.Call).Call.Args[1])
			r.ob("R19.2", fn+": wait-group Add(1)", p.ipos(ci), c == 1, true, "one reference per registration / wrapped stream")
		}
		mu := p.mutexRegion("listener.mu")
		held, _ := p.heldBefore(f, mu, false)
		for _, di := range findInstrs(f, p.mCallD("(*sync.WaitGroup).Done")) {
			nDone++
			class := ""
			// (i) CAS-once
			if p.guardedByCall(di, p.mAtomic("CAS", "streamWrapper.closed"), true) {
				class = "stream reference, released once behind CAS(closed,0,1)"
			}
			// (ii) membership test + delete under the mutex
			if class == "" && held[di] {
				member, deleted := false, false
				for _, fct := range factsAt(di.Block()) {
					if e, ok := fct.Cond.(*ssa.Extract); ok && fct.Truth {
						if lk, ok := e.Tuple.(*ssa.Lookup); ok && lk.CommaOk && isLoadOf(lk.X, "listener.sessions") {
							member = true
						}
					}
				}
				allInstrs(f, func(in ssa.Instruction) {
					if c, ok := in.(*ssa.Call); ok {
						if b, ok := c.Call.Value.(*ssa.Builtin); ok && b.Name() == "delete" && isLoadOf(c.Call.Args[0], "listener.sessions") && c.Block() == di.Block() {
							deleted = true
						}
					}
				})
				if member && deleted {
					class = "listener reference, released once: membership test + delete under listener.mu"
				}
			}
			// (iii) drain of the whole map followed by its reset, under the mutex
			if class == "" && held[di] {
				if e, ok := di.(*ssa.Call).Call.Args[0].(*ssa.Extract); ok {
					if nx, ok := e.Tuple.(*ssa.Next); ok {
						if rg, ok := nx.Iter.(*ssa.Range); ok && isLoadOf(rg.X, "listener.sessions") {
							reset := false
							for _, si := range findInstrs(f, mStoreWord("listener.sessions")) {
								if _, isMk := si.(*ssa.Store).Val.(*ssa.MakeMap); isMk && held[si] {
									if p.reaches(di, si, nil) {
										reset = true // drain, then reset
									}
									if ld, okl := rg.X.(ssa.Instruction); okl && instrDominates(ld, si) && instrDominates(si, di) {
										reset = true // table taken and replaced first, then drained (same critical section)
									}
								}
							}
							if reset {
								class = "listener references of all sessions, released once: drain + map reset under listener.mu"
							}
						}
					}
				}
			}
			r.ob("R19.2", fn+": wait-group Done() runs at most once per Add", p.ipos(di), class != "", true, "%s", class)
		}
	}
	r.count("R19.2", "WaitGroup.Add sites in listener code", nAdd, 2)
	r.count("R19.2", "WaitGroup.Done sites in listener code", nDone, 3)
	// the registration stores the wait group in the map under the mutex, after Add
	regOK := false
	for _, f := range p.fnList {
		if !isListenerCode(p, f) {
			continue
		}
		held, _ := p.heldBefore(f, p.mutexRegion("listener.mu"), false)
		allInstrs(f, func(in ssa.Instruction) {
			if mu, ok := in.(*ssa.MapUpdate); ok && isLoadOf(mu.Map, "listener.sessions") && held[in] {
				for _, ai := range findInstrs(f, p.mCall("(*sync.WaitGroup).Add")) {
					if sameExpr(ai.(*ssa.Call).Call.Args[0], mu.Value, 3) && instrDominates(ai, in) {
						regOK = true
					}
				}
			}
		})
	}
	r.ob("R19.2", "session registration: Add(1) precedes the insertion into listener.sessions, under listener.mu", "", regOK, true, "")
	// the session is closed when the wait group drains
	waitOK := false
	for _, f := range p.fnList {
		if isListenerCode(p, f) && len(findInstrs(f, p.mCall("(*sync.WaitGroup).Wait"))) > 0 {
			for _, wi := range findInstrs(f, p.mCall("(*sync.WaitGroup).Wait")) {
				for _, ci := range findInstrs(f, p.mCall("(*Session).Close")) {
					if instrDominates(wi, ci) {
						waitOK = true
					}
				}
			}
		}
	}
	r.ob("R19.2", "a session is closed once its wait group drained", "", waitOK, true, "")

	// ---- R19.3 delegation
	deleg := func(fnName, callee string, argParam int) {
		f := p.fn(fnName)
		if f == nil {
			r.fail("R19.3", "anchor "+fnName, "", "not found")
			return
		}
		ok := false
		for _, ret := range returnsOf(f) {
			v := ret.Results[0]
			if e, isE := v.(*ssa.Extract); isE {
				v = e.Tuple
			}
			if c, isC := v.(*ssa.Call); isC && p.calleeName(&c.Call) == callee {
				if argParam < 0 || c.Call.Args[len(c.Call.Args)-1] == ssa.Value(f.Params[argParam]) {
					ok = true
				}
			}
		}
		r.ob("R19.3", fnName+" forwards to "+callee+" with the caller's buffer", p.pos(f.Pos()), ok, true, "")
	}
	deleg("(*streamWrapper).Read", "(*Stream).copyRead", 1)
	deleg("(*streamWrapper).Write", "(*Stream).copyWriteAndFlush", 1)
	deleg("(*Stream).Read", "(*Stream).copyRead", 1)
	deleg("(*Stream).Write", "(*Stream).copyWriteAndFlush", 1)
	deleg("(*Stream).copyRead", "(*linkedBuffer).read", 1)
	deleg("(*Stream).copyWriteAndFlush", "(*linkedBuffer).copyWriteAndFlush", 1)
	for _, d := range []string{"SetDeadline", "SetReadDeadline", "SetWriteDeadline"} {
		deleg("(*streamWrapper)."+d, "(*Stream)."+d, 1)
	}
	if f := p.fn("(*linkedBuffer).copyWriteAndFlush"); f != nil {
		wb := findInstrs(f, p.mCall("(*linkedBuffer).WriteBytes"))
		fl := findInstrs(f, p.mCall("(*Stream).Flush"))
		ok := len(wb) == 1 && len(fl) == 1 && instrDominates(wb[0], fl[0]) && wb[0].(*ssa.Call).Call.Args[1] == ssa.Value(f.Params[1])
		r.ob("R19.3", "copyWriteAndFlush: buffers all of p, then flushes", p.pos(f.Pos()), ok, true, "Write delivers all of p or fails")
		// n>0 only together with the flush result
		okRet := true
		for _, ret := range returnsOf(f) {
			nv := resultOf(ret, 0)
			if c, isC := constInt(nv); isC && c == 0 {
				continue
			}
			if len(fl) == 0 || !instrDominates(fl[0], ret) {
				okRet = false
			}
		}
		r.ob("R19.3", "copyWriteAndFlush: a non-zero count is reported only after the flush was attempted", p.pos(f.Pos()), okRet, true, "")
	}
	if f := p.fn("(*linkedBuffer).read"); f != nil {
		ok := false
		for _, ci := range findInstrs(f, p.mCall("(*Stream).readMore")) {
			if c, isC := constInt(ci.(*ssa.Call).Call.Args[1]); isC && c == 1 {
				ok = true
			}
		}
		r.ob("R19.3", "read: waits for at least one byte when the buffer is empty", p.pos(f.Pos()), ok, true, "Read returns between 1 and len(p) bytes or an error")
	}
	if f := p.fn("(*streamWrapper).Close"); f != nil {
		ok := false
		for _, ci := range findInstrs(f, p.mCall("(*Stream).Close")) {
			if p.guardedByCall(ci, p.mAtomic("CAS", "streamWrapper.closed"), true) {
				ok = true
			}
		}
		r.ob("R19.3", "streamWrapper.Close closes the stream exactly once", p.pos(f.Pos()), ok, true, "")
	}

	// ---- R19.4 escapes
	if f := p.fn("(*listener).Accept"); f != nil {
		ok := false
		allInstrs(f, func(in ssa.Instruction) {
			if sel, isS := in.(*ssa.Select); isS {
				for _, st := range sel.States {
					if st.Dir == types.RecvOnly && isLoadOf(st.Chan, "listener.closeCh") {
						ok = true
					}
				}
			}
		})
		r.ob("R19.4", "Accept: unblocks when the listener is closed", p.pos(f.Pos()), ok, true, "")
	} else {
		r.fail("R19.4", "anchor (*listener).Accept", "", "not found")
	}
	if f := p.fn("(*listener).Close"); f != nil {
		ok := false
		allInstrs(f, func(in ssa.Instruction) {
			if c, isC := in.(*ssa.Call); isC {
				if b, isB := c.Call.Value.(*ssa.Builtin); isB && b.Name() == "close" && isLoadOf(c.Call.Args[0], "listener.closeCh") &&
					p.guardedByCall(in, p.mAtomic("CAS", "listener.closed"), true) {
					ok = true
				}
			}
		})
		r.ob("R19.4", "listener.Close: closes closeCh exactly once (behind CAS(closed,0,1))", p.pos(f.Pos()), ok, true, "")
	}
	// R19.6 what Write accepted is what Read returns, also on the socket-fallback path: the payload handed to the stream
	// is a copy, never a window of the connection's reused read buffer (shared with C06 R06.5 / C18 R18.6)
	noEscapeOfEventBuffer(p, r, "R19.6")
	// R19.7 no Write is delivered twice: consumed event bytes never re-enter the receive window (shared with C18 R18.4)
	c18Window(p, r, "R19.7")
	// R19.5 deadlines behave like a socket's: the per-stream read/write timers behind SetReadDeadline / SetDeadline are
	// armed before each wait and a fired tick never survives into the next wait (shared with C11 R11.7 / R11.8)
	borrow(p, r, "C11", runC11, map[string]string{"R11.7": "R19.5", "R11.8": "R19.5"}, func(o Ob) bool { return constructHas(o, "(*Stream)") })
}
