package main

import (
	"golang.org/x/tools/go/ssa"
)

func init() {
	register(&property{
		ID: "C07",
		Explanation: "Decides the structural conditions that keep streams isolated and keep a stream's data on one channel: every queue element, fallback event and close event built in Stream code carries the receiver's own id; on the receiving side the stream handed to the message handler is the one looked up (under the stream lock) with the element's / event's own id; the fallback mark is sticky (set anywhere, cleared only by the pool-reuse reset); in Flush the transport is chosen after the mark was updated and the fallback edge never reaches the queue; " +
			"the close notification uses the channel the stream's data uses (queue only when the stream is not in fallback state); only the close routine announces streamClosed and Flush enqueues only the opened state it checked; fallback payload handed to a stream is a copy, never an alias of the connection's shared read buffer. NOT decided: order across the two channels under all schedules (e.g. a close that falls back to the connection because the queue is full while data is still queued), per-stream order under concurrent writers, cross-stream isolation of the bytes themselves (depends on C01).",
		RuleText: "R07.1 value identity of every seqID operand in Stream methods and of the lookup key on the receive side; R07.2 census of stores to Stream.inFallbackState; R07.3 dominance in Flush; R07.4 sibling agreement close vs Flush on the channel choice; R07.5 census of status operands; R07.6 escape analysis of the connection's read buffer in wire handlers (shared with C06 R06.5 / C18 R18.6).",
		Run:      runC07,
	})
}

func recvNamed(f *ssa.Function) string {
	for g := f; g != nil; g = g.Parent() {
		if g.Signature.Recv() != nil {
			return namedName(g.Signature.Recv().Type())
		}
	}
	return ""
}

func runC07(p *P, r *R) {
	prod, cons := p.queueRoles()
	var prodNames, consNames []string
	for _, f := range prod {
		prodNames = append(prodNames, p.fname(f))
	}
	for _, f := range cons {
		consNames = append(consNames, p.fname(f))
	}
	mPut := p.mCall(prodNames...)
	mFam := p.mPutFamily()
	_, wrappers := p.putFamily()
	mPop := p.mCall(consNames...)
	isOwnID := func(v ssa.Value) bool { return isLoadOf(v, "Stream.id") }

	// ---- R07.1 send side
	n := 0
	for _, f := range p.fnList {
		if recvNamed(f) != "Stream" {
			continue
		}
		fn := p.fname(f)
		for _, si := range findInstrs(f, mStoreWord("queueElement.seqID")) {
			n++
			r.ob("R07.1", fn+": a queue element carries the stream's own id", p.ipos(si), isOwnID(si.(*ssa.Store).Val), true, "a reader only ever receives bytes written to its own stream")
		}
		for _, ci := range findInstrs(f, p.mCall("(*fallbackDataEvent).encode")) {
			n++
			r.ob("R07.1", fn+": a fallback data event carries the stream's own id", p.ipos(ci), isOwnID(ci.(*ssa.Call).Call.Args[3]), true, "")
		}
		for _, ci := range findInstrs(f, p.mCall("(encoding/binary.bigEndian).PutUint32")) {
			// the close event's id field
			n++
			r.ob("R07.1", fn+": a connection-level stream event carries the stream's own id", p.ipos(ci), isOwnID(ci.(*ssa.Call).Call.Args[2]), true, "")
		}
	}
	r.count("R07.1", "id-carrying sites in Stream code", n, 4)
	// every element enqueued from Stream code has its seqID set
	for _, f := range p.fnList {
		if recvNamed(f) != "Stream" {
			continue
		}
		puts := findInstrs(f, mPut)
		if len(puts) == 0 {
			continue
		}
		nSet := 0
		for _, pi := range puts {
			if len(elementFieldStores(pi, 1, "queueElement.seqID")) > 0 {
				nSet++
			}
		}
		r.ob("R07.1", p.fname(f)+": every enqueued element has its id field set", p.pos(f.Pos()), nSet == len(puts), true, "%d of %d enqueue sites pass an element whose id field was stored", nSet, len(puts))
	}
	// receive side: handleStreamMessage gets the stream looked up with the element's own id
	nr := 0
	for _, f := range p.wireFamily() {
		for _, ci := range findInstrs(f, p.mCall("(*Session).handleStreamMessage")) {
			nr++
			st := ci.(*ssa.Call).Call.Args[1]
			ok := false
			if lk, isC := st.(*ssa.Call); isC && (p.calleeName(&lk.Call) == "(*Session).getStream" || p.calleeName(&lk.Call) == "(*Session).getStreamById") {
				key := lk.Call.Args[1]
				// the id of the dequeued element, or (connection event) the id decoded from the event's own bytes
				c, isCall := stripConv(key).(*ssa.Call)
				ok = isLoadOf(key, "queueElement.seqID") || (len(findInstrs(f, mPop)) == 0 && isCall && p.calleeName(&c.Call) == "(encoding/binary.bigEndian).Uint32")
			}
			r.ob("R07.1", p.fname(f)+": the message is delivered to the stream looked up with the element's own id", p.ipos(ci), ok, true, "")
		}
		for _, ci := range findInstrs(f, p.mCall("(*Stream).halfClose")) {
			nr++
			st := ci.(*ssa.Call).Call.Args[0]
			ok := true
			// a stream handed in as a parameter (per-message helper) is judged at the helper's call sites
			cands := p.argsFor(st, f)
			if len(cands) == 0 {
				ok = false
			}
			for _, cand := range cands {
				okc := false
				if lk, isC := cand.(*ssa.Call); isC && (p.calleeName(&lk.Call) == "(*Session).getStreamById" || p.calleeName(&lk.Call) == "(*Session).getStream") {
					c, isCall := stripConv(lk.Call.Args[1]).(*ssa.Call)
					okc = isLoadOf(lk.Call.Args[1], "queueElement.seqID") || (isCall && p.calleeName(&c.Call) == "(encoding/binary.bigEndian).Uint32")
				}
				ok = ok && okc
			}
			r.ob("R07.1", p.fname(f)+": the close event closes the stream named in the event", p.ipos(ci), ok, true, "")
		}
	}
	r.count("R07.1", "delivery sites on the receive side", nr, 3)
	for _, ln := range []string{"(*Session).getStream", "(*Session).getStreamById"} {
		f := p.fn(ln)
		if f == nil {
			r.fail("R07.1", "anchor "+ln, "", "not found")
			continue
		}
		held, _ := p.heldBefore(f, p.mutexRegion("Session.streamLock"), false)
		ok, nl := true, 0
		allInstrs(f, func(in ssa.Instruction) {
			if lk, isL := in.(*ssa.Lookup); isL && isLoadOf(lk.X, "Session.streams") {
				nl++
				if !held[in] {
					ok = false
				}
				if _, isParam := lk.Index.(*ssa.Parameter); !isParam {
					ok = false
				}
			}
		})
		r.ob("R07.1", ln+": the table lookup uses the given id, under streamLock", p.pos(f.Pos()), ok && nl > 0, true, "")
	}

	// ---- R07.2 sticky fallback
	ns := 0
	for _, f := range p.fnList {
		allInstrs(f, func(in ssa.Instruction) {
			val, ok := storeBoolTo(in, "Stream.inFallbackState")
			if !ok {
				if st, isSt := in.(*ssa.Store); isSt && wordOf(st.Addr) == "Stream.inFallbackState" {
					if _, isAlloc := st.Addr.(*ssa.FieldAddr).X.(*ssa.Alloc); !isAlloc {
						r.fail("R07.2", p.fname(f)+": non-constant store to inFallbackState", p.ipos(in), "")
					}
				}
				return
			}
			ns++
			if val {
				r.ob("R07.2", p.fname(f)+": sets the fallback mark", p.ipos(in), true, false, "setting is always allowed")
				return
			}
			r.ob("R07.2", p.fname(f)+": clears the fallback mark", p.ipos(in), p.fname(f) == "(*Stream).reset", true,
				"once a stream spilled to the connection it must stay there: switching back re-orders its data across the two channels; only the pool-reuse reset may clear the mark")
		})
	}
	r.count("R07.2", "stores to Stream.inFallbackState", ns, 3)
	// reset is only reachable from the pool put-back
	if rs := p.fn("(*Stream).reset"); rs != nil {
		okCallers := true
		for _, f := range p.fnList {
			if len(findInstrs(f, p.mCall("(*Stream).reset"))) > 0 && p.fname(f) != "(*streamPool).putOrCloseStream" {
				okCallers = false
			}
		}
		r.ob("R07.2", "(*Stream).reset is called by the pool put-back only", p.pos(rs.Pos()), okCallers, true, "")
	}

	// ---- R07.3 / R07.4 / R07.5
	isFb := func(v ssa.Value) bool { return isLoadOf(v, "Stream.inFallbackState") }
	notFallbackAt := func(in ssa.Instruction) (bool, ssa.Value) {
		for _, fct := range factsAt(in.Block()) {
			c, neg := stripNot(fct.Cond)
			if isFb(c) && fct.Truth == neg {
				return true, c
			}
		}
		return false, nil
	}
	if fl := p.fn("(*Stream).Flush"); fl != nil {
		for _, ci := range findInstrs(fl, mFam) {
			ok, ld := notFallbackAt(ci)
			r.ob("R07.3", "(*Stream).Flush: the queue is used only when the stream is not in fallback state", p.ipos(ci), ok, true, "")
			if ld != nil {
				// the mark is read after it was updated from the buffer's provenance
				stale := false
				for _, si := range findInstrs(fl, mStoreWord("Stream.inFallbackState")) {
					if ldi, isI := ld.(ssa.Instruction); isI && p.reaches(ldi, si, nil) && !instrDominates(si, ldi) {
						stale = true
					}
				}
				r.ob("R07.3", "(*Stream).Flush: the transport is chosen after the fallback mark was updated", p.ipos(ci), !stale, true, "")
			}
		}
		// the mark is updated from the send buffer's provenance
		okUpd := false
		for _, si := range findInstrs(fl, mStoreWord("Stream.inFallbackState")) {
			if p.guardedByCall(si, p.mCall("(*linkedBuffer).isFromShareMemory"), false) {
				okUpd = true
			}
		}
		r.ob("R07.3", "(*Stream).Flush: a buffer that spilled out of shared memory sets the fallback mark", p.pos(fl.Pos()), okUpd, true, "")
		// status operand = the state that was checked == opened (looked up through an enqueue helper's parameter)
		for _, g := range append([]*ssa.Function{fl}, wrappers...) {
			for _, si := range findInstrs(g, mStoreWord("queueElement.status")) {
				okAll := true
				for _, v := range p.argsFor(si.(*ssa.Store).Val, g) {
					c, isC := v.(*ssa.Call)
					okS := isC && p.calleeName(&c.Call) == "(*Stream).getStreamState"
					if okS {
						okS = false
						isV := func(x ssa.Value) bool { return x == v }
						isOpen := func(x ssa.Value) bool { k, okk := constInt(x); return okk && k == stOpened }
						blk := si.Block()
						if g != fl {
							// the check lives in the caller: use the call site's block
							for _, ci := range findInstrs(fl, p.mCall(p.fname(g))) {
								blk = ci.Block()
							}
						}
						for _, fct := range factsAt(blk) {
							if relOn(fct.Cond, fct.Truth, isV, isOpen) == "==" {
								okS = true
							}
						}
					}
					if !okS {
						okAll = false
					}
				}
				r.ob("R07.5", "(*Stream).Flush: data elements carry the opened state that was checked", p.ipos(si), okAll, true, "only the close routine may announce streamClosed")
			}
		}
	} else {
		r.fail("R07.3", "anchor (*Stream).Flush", "", "not found")
	}
	var closeFam []*ssa.Function
	if cl := p.fn("(*Stream).close"); cl != nil {
		closeFam = p.family(cl)
		np, okSock := 0, false
		for _, g := range closeFam {
			for _, ci := range findInstrs(g, mPut) {
				np++
				ok, _ := notFallbackAt(ci)
				r.ob("R07.4", "(*Stream).close: the close notification goes through the queue only when the stream's data does (not in fallback state)", p.ipos(ci), ok, true,
					"for a fallback stream the data sits in the socket: a close element in the queue can be consumed first and the reader is told the stream ended before it was offered the bytes")
			}
			if len(findInstrs(g, p.mCall("(*Session).waitForSend"))) > 0 {
				okSock = true
			}
		}
		r.count("R07.4", "queue notifications in close()", np, 1)
		// the connection path exists for fallback streams
		r.ob("R07.4", "(*Stream).close: a connection-level close event exists for fallback streams / full queues", p.pos(cl.Pos()), okSock, true, "")
	} else {
		r.fail("R07.4", "anchor (*Stream).close", "", "not found")
	}
	// R07.5 only close() stores streamClosed into an element
	for _, f := range p.fnList {
		for _, si := range findInstrs(f, mStoreWord("queueElement.status")) {
			if c, ok := constInt(si.(*ssa.Store).Val); ok && c == stClosed {
				r.ob("R07.5", p.fname(f)+": announces streamClosed", p.ipos(si), inFns(f, closeFam), true, "")
			}
		}
	}
	// R07.6 bytes delivered to a stream through the connection are a private copy: the connection's read
	// buffer is reused for the next event (of any stream), so an alias would let other traffic rewrite them
	noEscapeOfEventBuffer(p, r, "R07.6")

	// the receive side applies the fallback mark when fallback data arrives (so that the answer uses the same channel)
	if mv := p.fn("(*pendingData).moveToWithoutLock"); mv != nil {
		ok := false
		allInstrs(mv, func(in ssa.Instruction) {
			if val, okv := storeBoolTo(in, "Stream.inFallbackState"); okv && val {
				ok = true
			}
		})
		r.ob("R07.2", "receive side: a stream that receives fallback data is marked fallback", p.pos(mv.Pos()), ok, true, "")
	}
	// R07.7 bytes never cross direction: the read buffer becomes the write buffer only when fully consumed (shared with C09 R09.9)
	borrow(p, r, "C09", runC09, map[string]string{"R09.9": "R07.7"}, nil)
	// R07.8 a stream's bytes on the connection are never interleaved with another writer's event: every event is
	// written under the session's writing flag (shared with C18 R18.1 / R18.2)
	borrow(p, r, "C18", runC18, map[string]string{"R18.1": "R07.8", "R18.2": "R07.8"}, nil)
	// R07.9 one id, one stream: no second stream is registered under an id that is still in the table (shared with C15 R15.8)
	registrationOnlyWhenAbsent(p, r, "R07.9")
}
