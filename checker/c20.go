package main

import (
	"golang.org/x/tools/go/ssa"
)

func init() {
	register(&property{
		ID: "C20",
		Explanation: "Decides the shape of the callback hand-off on every path: the event loop publishes an arrival (pendingData.add) before it tries to take the callbackInProcess flag, and spawns the callback goroutine only as the CAS winner, after registering it in the wait group; the goroutine, when it runs out of data, clears the flag first, re-checks the pending list afterwards, and continues only if it re-takes the flag (otherwise a concurrent arrival's CAS has started a new goroutine); " +
			"OnData is called only from that goroutine, after pending data was moved into the read buffer and while the stream is open with bytes buffered; the wait group is released exactly once on each exit, before the deferred close (which waits on it) is run; a Close() issued from inside the callback is finished by the goroutine (close() is called when callbackCloseState is set) and close() treats the deferred state like opened. " +
			"NOT decided: eventual delivery, in-order/at-most-once of the bytes themselves (C06/C07), exact serial execution under all schedules.",
		RuleText: "R20.1 ordering in the data-arrival function; R20.2 ordering and loop-continuation edges inside the spawned closure; R20.3 guards of every OnData call; R20.4 wait-group pairing on every exit of the closure; R20.5 deferred close side-conditions (shared with C11 R11.3 / C10 R10.3).",
		Run:      runC20,
	})
}

func runC20(p *P, r *R) {
	fd := p.fn("(*Stream).fillDataToReadBuffer")
	if fd == nil {
		r.fail("R20.1", "anchor (*Stream).fillDataToReadBuffer", "", "not found")
		return
	}
	casM := p.mAtomic("CAS", "Stream.callbackInProcess")
	// ---- R20.1
	adds := findInstrs(fd, p.mCall("(*pendingData).add"))
	cass := findInstrs(fd, casM)
	r.count("R20.1", "CAS(callbackInProcess) in the arrival function", len(cass), 1)
	for _, c := range cass {
		ok := false
		for _, a := range adds {
			if instrDominates(a, c) {
				ok = true
			}
		}
		r.ob("R20.1", "fillDataToReadBuffer: the arrival is published before the callback flag is tried", p.ipos(c), ok, true,
			"take-then-publish lets a finishing goroutine miss the arrival: no further traffic, no OnData")
		cc := c.(*ssa.Call)
		o, ok1 := constInt(cc.Call.Args[1])
		n, ok2 := constInt(cc.Call.Args[2])
		r.ob("R20.1", "fillDataToReadBuffer: the flag CAS is 0 -> 1", p.ipos(c), ok1 && ok2 && o == 0 && n == 1, true, "")
	}
	// spawn: gopool.Go(closure) / go closure
	var body *ssa.Function
	var spawn ssa.Instruction
	allInstrs(fd, func(in ssa.Instruction) {
		switch x := in.(type) {
		case *ssa.Go:
			for _, g := range closureArgs(x) {
				body, spawn = g, in
			}
			if mc, ok := x.Call.Value.(*ssa.MakeClosure); ok {
				if g, ok := mc.Fn.(*ssa.Function); ok {
					body, spawn = g, in
				}
			}
		case *ssa.Call:
			if n := p.calleeName(&x.Call); n == "github.com/bytedance/gopkg/util/gopool.Go" {
				for _, g := range closureArgs(x) {
					body, spawn = g, in
				}
			}
		}
	})
	if body == nil {
		r.fail("R20.1", "fillDataToReadBuffer: callback goroutine spawn", p.pos(fd.Pos()), "not found")
		return
	}
	r.Scope[p.fname(body)] = true
	r.ob("R20.1", "fillDataToReadBuffer: the callback goroutine is spawned only by the CAS winner", p.ipos(spawn), p.guardedByCall(spawn, casM, true), true,
		"two goroutines would run OnData concurrently for one stream")
	wgAdd := false
	for _, ai := range findInstrs(fd, p.mCall("(*sync.WaitGroup).Add")) {
		if fa, ok := ai.(*ssa.Call).Call.Args[0].(*ssa.FieldAddr); ok && fieldKey(fa) == "Stream.asyncGoroutineWg" && instrDominates(ai, spawn) && p.guardedByCall(ai, casM, true) {
			if k, okk := constInt(ai.(*ssa.Call).Call.Args[1]); okk && k == 1 {
				wgAdd = true
			}
		}
	}
	r.ob("R20.1", "fillDataToReadBuffer: the goroutine is registered in the wait group before it is spawned", p.ipos(spawn), wgAdd, true, "close() waits on this group")
	// readers are notified in any case
	arrivalWakesReaders(p, r, "R20.1")
	// R20.7 the in-process flag serialises OnData: outside the callback goroutine it is cleared only where no goroutine
	// can be running — on the path on which no callbacks were installed yet
	{
		isCbVal := func(v ssa.Value) bool {
			c, ok := v.(*ssa.Call)
			return ok && p.calleeName(&c.Call) == "(*Stream).getCallbacks"
		}
		n7 := 0
		for _, f := range p.fnList {
			if f == body || (f.Parent() != nil && f.Parent() == fd) {
				continue
			}
			allInstrs(f, func(in ssa.Instruction) {
				a := p.atomicOp(in)
				if a == nil || a.Op != "Store" || a.Word != "Stream.callbackInProcess" {
					return
				}
				if _, isCall := in.(*ssa.Call); !isCall {
					return
				}
				n7++
				ok := false
				for _, fct := range factsAt(in.Block()) {
					if relOn(fct.Cond, fct.Truth, isCbVal, isNilConst) == "==" {
						ok = true
					}
				}
				r.ob("R20.7", p.fname(f)+": the in-process flag is cleared outside the callback goroutine only while no callbacks are installed", p.ipos(in), ok, true,
					"clearing it under a running OnData lets the next arrival start a second callback goroutine")
			})
		}
		r.count("R20.7", "clears of callbackInProcess outside the callback goroutine", n7, 1)
	}

	// ---- R20.2 inside the closure
	clears := findInstrs(body, M{ID: "clear", F: func(in ssa.Instruction) bool {
		a := p.atomicOp(in)
		if a == nil || a.Op != "Store" || a.Word != "Stream.callbackInProcess" {
			return false
		}
		_, isCall := in.(*ssa.Call)
		c, ok := constInt(a.Call.Args[1])
		return isCall && ok && c == 0
	}})
	r.count("R20.2", "flag clears in the callback goroutine", len(clears), 1)
	isPendLen := func(v ssa.Value) bool {
		c, ok := v.(*ssa.Call)
		if !ok {
			return false
		}
		b, ok := c.Call.Value.(*ssa.Builtin)
		return ok && b.Name() == "len" && isLoadOf(c.Call.Args[0], "pendingData.unread")
	}
	var pendReads []ssa.Instruction
	allInstrs(body, func(in ssa.Instruction) {
		if c, ok := in.(*ssa.Call); ok && isPendLen(c) {
			pendReads = append(pendReads, in)
		}
	})
	r.count("R20.2", "pending re-checks in the callback goroutine", len(pendReads), 1)
	for _, pr := range pendReads {
		ok := false
		for _, cl := range clears {
			if instrDominates(cl, pr) && !p.reaches(pr, cl, map[*ssa.BasicBlock]bool{}) || instrDominates(cl, pr) {
				ok = true
			}
		}
		r.ob("R20.2", "callback goroutine: the flag is cleared before the pending list is re-checked", p.ipos(pr), ok, true,
			"re-check-then-clear strands an arrival that lost the CAS in between")
	}
	// loop continuation: every back edge into the loop from after the clear is on (pending non-empty) and (CAS success)
	recas := findInstrs(body, casM)
	r.count("R20.2", "flag re-take in the callback goroutine", len(recas), 1)
	isZero := func(v ssa.Value) bool { c, ok := constInt(v); return ok && c == 0 }
	for _, rc := range recas {
		okPend := false
		for _, fct := range factsAt(rc.Block()) {
			if rel := relOn(fct.Cond, fct.Truth, isPendLen, isZero); rel == ">" || rel == "!=" {
				okPend = true
			}
		}
		r.ob("R20.2", "callback goroutine: the flag is re-taken only when something is pending", p.ipos(rc), okPend, true, "")
	}
	for _, cl := range clears {
		// from the clear, reaching an OnData call again requires passing a won CAS
		var onData []ssa.Instruction
		allInstrs(body, func(in ssa.Instruction) {
			if c, ok := in.(*ssa.Call); ok && c.Call.IsInvoke() && c.Call.Method.Name() == "OnData" {
				onData = append(onData, in)
			}
		})
		bad := false
		for _, od := range onData {
			// paths from the clear to OnData that do not take the CAS-true edge
			if p.reachesWithout(pointOf(cl), od, nil, func(b *ssa.BasicBlock, i int) bool {
				ifi := blockIf(b)
				if ifi == nil {
					return true
				}
				c, pol := condCall(ifi.Cond)
				if c != nil && casM.F(c) {
					// only allow the losing edge: the winning edge is the legitimate way back
					return (i == 0) != pol
				}
				return true
			}) {
				bad = true
			}
		}
		r.ob("R20.2", "callback goroutine: after clearing the flag OnData runs again only behind a won re-take", p.ipos(cl), !bad, true, "otherwise two goroutines can be inside OnData")
	}

	// ---- R20.3
	nOn := 0
	for _, f := range p.fnList {
		allInstrs(f, func(in ssa.Instruction) {
			c, ok := in.(*ssa.Call)
			if !ok || !c.Call.IsInvoke() || c.Call.Method.Name() != "OnData" {
				return
			}
			nOn++
			r.ob("R20.3", p.fname(f)+": OnData is called only from the callback goroutine", p.ipos(in), f == body, true, "")
			if f != body {
				return
			}
			open := p.guardedByCall(in, p.mCall("(*Stream).IsOpen"), true)
			isLen := func(v ssa.Value) bool {
				cc, okc := v.(*ssa.Call)
				return okc && p.calleeName(&cc.Call) == "(*linkedBuffer).Len"
			}
			has := false
			for _, fct := range factsAt(in.Block()) {
				if rel := relOn(fct.Cond, fct.Truth, isLen, isZero); rel == ">" || rel == "!=" {
					has = true
				}
			}
			r.ob("R20.3", "callback goroutine: OnData only while the stream is open", p.ipos(in), open, true, "data stops being offered once the stream is closed")
			r.ob("R20.3", "callback goroutine: OnData only when bytes are buffered", p.ipos(in), has, true, "")
			// moveTo precedes: on every path from entry / previous OnData to this OnData
			mv := p.mCall("(*pendingData).moveTo")
			okMove := !p.reachesWithout(Point{body.Blocks[0], -1}, in, mv.F, nil) && !p.reachesWithout(pointOf(in), in, mv.F, nil)
			r.ob("R20.3", "callback goroutine: pending arrivals are moved into the read buffer before each OnData", p.ipos(in), okMove, true, "")
			arg := c.Call.Args[0]
			okBuf := false
			if mi, okm := arg.(*ssa.MakeInterface); okm && isLoadOf(mi.X, "Stream.recvBuf") {
				okBuf = true
			}
			r.ob("R20.3", "callback goroutine: OnData receives the stream's receive buffer", p.ipos(in), okBuf, true, "")
			// R20.6 the goroutine stops offering (reaches the clearing of its in-process flag) only over an edge on which
			// the read buffer was found empty or the stream not open: any other way out of the offer loop strands bytes
			// that are already in the read buffer — nothing re-offers them until more traffic arrives
			isOpenCall := func(v ssa.Value) bool {
				cc, okc := v.(*ssa.Call)
				return okc && p.calleeName(&cc.Call) == "(*Stream).IsOpen"
			}
			okp, res := p.findBadPath(body, []Point{pointOf(in)}, pathOpts{
				Bad: func(i2 ssa.Instruction) bool {
					if a := p.atomicOp(i2); a != nil && a.Op == "Store" && a.Word == "Stream.callbackInProcess" {
						_, isCall := i2.(*ssa.Call)
						return isCall
					}
					_, isRet := i2.(*ssa.Return)
					return isRet
				},
				EdgeOK: func(b *ssa.BasicBlock, i int) bool {
					ifi := blockIf(b)
					if ifi == nil {
						return true
					}
					if rel := relOn(ifi.Cond, i == 0, isLen, isZero); rel == "<=" || rel == "==" {
						return false // nothing left to offer
					}
					if cc, pol := condCall(ifi.Cond); cc != nil && isOpenCall(cc) && (i == 0) != pol {
						return false // the stream is no longer open
					}
					return true
				},
			})
			r.ob("R20.6", "callback goroutine: after an OnData the offer loop is left only when the read buffer is empty or the stream is not open", p.ipos(in), okp, true, "%s", p.pathString(res))
		})
	}
	r.count("R20.3", "OnData call sites", nOn, 1)

	// ---- R20.4 wait group pairing
	done := M{ID: "wgDone", F: func(in ssa.Instruction) bool {
		c, ok := in.(*ssa.Call)
		if !ok || p.calleeName(&c.Call) != "(*sync.WaitGroup).Done" {
			return false
		}
		fa, okf := c.Call.Args[0].(*ssa.FieldAddr)
		return okf && fieldKey(fa) == "Stream.asyncGoroutineWg"
	}}
	dones := findInstrs(body, done)
	res := p.mustPass(body, []Point{{body.Blocks[0], -1}}, done.F, nil, nil)
	r.ob("R20.4", "callback goroutine: the wait group is released on every exit", p.pos(body.Pos()), res.OK, true, "%s", p.pathString(res))
	dup := false
	for _, a := range dones {
		for _, b := range dones {
			if p.reaches(a, b, nil) {
				dup = true
			}
		}
	}
	r.ob("R20.4", "callback goroutine: the wait group is released at most once", p.pos(body.Pos()), !dup, true, "a second Done panics (negative counter)")
	for _, ci := range findInstrs(body, p.mCall("(*Stream).close")) {
		ok := false
		for _, d := range dones {
			if instrDominates(d, ci) {
				ok = true
			}
		}
		r.ob("R20.4", "callback goroutine: Done() precedes the deferred close (which waits on the group)", p.ipos(ci), ok, true, "close() would wait for itself")
	}
	if cl := p.fn("(*Stream).close"); cl != nil {
		for _, wi := range findInstrs(cl, p.mCall("(*sync.WaitGroup).Wait")) {
			isCb := func(v ssa.Value) bool {
				c, ok := v.(*ssa.Call)
				return ok && p.calleeName(&c.Call) == "(*Stream).getCallbacks"
			}
			ok := false
			for _, fct := range factsAt(wi.Block()) {
				if relOn(fct.Cond, fct.Truth, isCb, isNilConst) == "!=" {
					ok = true
				}
			}
			r.ob("R20.4", "close(): waits for the callback goroutine only when callbacks are installed", p.ipos(wi), ok, true, "")
		}
	}

	// ---- R20.5
	r.ob("R20.5", "a Close() issued while the callback runs is finished by the callback goroutine", p.pos(body.Pos()), c11DeferredCloseFinished(p), true,
		"the goroutine calls close() on the callbackCloseState edge, Close() sets that state before its CAS, and close() treats the deferred state like opened (C10 R10.3)")
	// the close routine treats the deferred state like opened, and only the exported Close enters it (shared with C10)
	borrow(p, r, "C10", runC10, map[string]string{"R10.3": "R20.5", "R10.2": "R20.5", "R10.8": "R20.5"}, func(o Ob) bool { return constructHas(o, "localClosing", "issued while a callback runs") })
	// SetCallbacks installs once
	if sc := p.fn("(*Stream).SetCallbacks"); sc != nil {
		ok := false
		for _, ci := range findInstrs(sc, p.mCall("(*Stream).setCallbacks")) {
			isCb := func(v ssa.Value) bool {
				c, okc := v.(*ssa.Call)
				return okc && p.calleeName(&c.Call) == "(*Stream).getCallbacks"
			}
			for _, fct := range factsAt(ci.Block()) {
				if relOn(fct.Cond, fct.Truth, isCb, isNilConst) == "==" {
					ok = true
				}
			}
		}
		r.ob("R20.5", "SetCallbacks installs the callbacks only once", p.pos(sc.Pos()), ok, true, "")
	}
}

// arrivalWakesReaders (R20.1 / R11.10): a reader — including a callback's own OnData blocked in ReadBytes/Peek for more
// bytes than have arrived — sleeps in readMore on recvNotifyCh; the arrival routine must signal that channel on every
// path that published a frame and found the stream not closed, whether or not callbacks are installed.
func arrivalWakesReaders(p *P, r *R, rule string) {
	fd := p.fn("(*Stream).fillDataToReadBuffer")
	if fd == nil {
		r.fail(rule, "anchor (*Stream).fillDataToReadBuffer", "", "not found")
		return
	}
	notify := M{ID: "notify recvNotifyCh", F: func(in ssa.Instruction) bool {
		if _, isGo := in.(*ssa.Go); isGo {
			return false
		}
		cc := callCommon(in) // a call, or a `defer` (runs at every exit after this point)
		return cc != nil && p.calleeName(cc) == "asyncNotify" && isLoadOf(cc.Args[0], "Stream.recvNotifyCh")
	}}
	isState := func(v ssa.Value) bool {
		c, ok := v.(*ssa.Call)
		if ok && p.calleeName(&c.Call) == "(*Stream).getStreamState" {
			return true
		}
		if ok {
			if a := p.atomicOp(c); a != nil && a.Op == "Load" && a.Word == "Stream.state" {
				return true
			}
		}
		return false
	}
	closedV, _ := p.pkgConstInt("streamClosed")
	isClosed := func(v ssa.Value) bool { c, ok := constInt(v); return ok && c == closedV }
	adds := findInstrs(fd, p.mCall("(*pendingData).add"))
	r.count(rule, "arrival publications in fillDataToReadBuffer", len(adds), 1)
	for _, a := range adds {
		res := p.mustPass(fd, []Point{pointOf(a)}, func(in ssa.Instruction) bool { return p.evMust(in, notify, 2) },
			func(b *ssa.BasicBlock, i int) bool {
				ifi := blockIf(b)
				if ifi == nil {
					return true
				}
				return relOn(ifi.Cond, i == 0, isState, isClosed) != "==" // closed: the frame is dropped, nobody to wake
			}, nil)
		r.ob(rule, "fillDataToReadBuffer: blocked readers are notified of the arrival on every path (callbacks installed or not)", p.ipos(a), res.OK, true,
			"an OnData blocked in a read for more bytes is woken only through recvNotifyCh: %s", p.pathString(res))
	}
}
