package main

import (
	"bytes"
	"go/ast"
	"go/constant"
	"go/parser"
	"go/printer"
	"go/token"
	"go/types"
	"path/filepath"
	"sort"
	"strings"

	"golang.org/x/tools/go/ssa"
)

func init() {
	register(&property{
		ID: "C18",
		Explanation: "Decides the structure that keeps event-connection bytes exactly-once and in order: every write to the event connection after the handshake happens while the Session.writing flag is held (acquired on the CAS-success edge) and the flag is released on every exit, with the send loop woken after a fast-path release; " +
			"the partial-write loop advances its cursor by exactly the syscall result, passes &data[cursor]/len-cursor, never advances on EAGAIN and ends successfully only when everything was written; " +
			"the receive window is used consistently: the callback and the grow-copy see exactly readBuffer[readStartOff:readEndOff], the read syscall appends at readEndOff, the grow step copies the pending window before it resets the offsets, commitRead advances by n and resets/shrinks only when start==end; " +
			"the race-build copy of the dispatcher is analysed with the same rules in every tier (the arm64 configuration in the thorough tier); textual drift between the variant files is reported as an advisory note. NOT decided: exactly-once/in-order as such, EAGAIN/EPOLLOUT races, event boundaries, kernel behaviour.",
		RuleText: "R18.1 must-held dataflow of the CAS flag Session.writing at every call reaching eventConn.write; R18.2 must-pass-through after each release outside the send loop; R18.3 shape of the accumulator phi of the write loop; R18.4 census of every slice/index of connEventHandler.readBuffer and every store to readStartOff/readEndOff/readBuffer; R18.5 presence of every declaration in both build-variant files (textual drift: advisory note); all rules run on the race configuration too.",
		Run:      runC18,
		// the race build has its own copy of the dispatcher: it is analysed with the same rules in every tier
		QuickConfigs: []BuildConfig{cfgRace},
	})
}

// writingRegion: Session.writing acquired on the true edge of CAS(&s.writing,0,1), released by Store 0.
func (p *P) writingRegion() Region {
	casM := p.mAtomic("CAS", "Session.writing")
	return Region{
		Release: func(in ssa.Instruction) bool {
			a := p.atomicOp(in)
			if a == nil || a.Op != "Store" || a.Word != "Session.writing" {
				return false
			}
			if _, isGo := in.(*ssa.Go); isGo {
				return false
			}
			c, ok := constInt(a.Call.Args[1]) // a call, or a `defer` (the dataflow skips defers; exits see deferredRelease)
			return ok && c == 0
		},
		EdgeAcquire: func(b *ssa.BasicBlock, i int) bool {
			ifi := blockIf(b)
			if ifi == nil {
				return false
			}
			call, pol := condCall(ifi.Cond)
			if call == nil || !casM.F(call) {
				return false
			}
			o, ok1 := constInt(call.Call.Args[1])
			n, ok2 := constInt(call.Call.Args[2])
			if !ok1 || !ok2 || o != 0 || n != 1 {
				return false
			}
			return (i == 0) == pol
		},
	}
}

func runC18(p *P, r *R) {
	wed := p.fn("(*Session).writeEventData")
	if wed == nil {
		r.fail("R18.1", "anchor (*Session).writeEventData", "", "function not found")
		return
	}
	// who calls eventConn.write / writev (interface invokes)?
	nInv := 0
	for _, f := range p.fnList {
		allInstrs(f, func(in ssa.Instruction) {
			c, ok := in.(*ssa.Call)
			if !ok || !c.Call.IsInvoke() || namedName(c.Call.Value.Type()) != "eventConn" {
				return
			}
			if m := c.Call.Method.Name(); m == "write" || m == "writev" {
				nInv++
				r.ob("R18.1", p.fname(f)+": writes to the event connection", p.ipos(in), f == wed, true,
					"after the handshake every byte goes through writeEventData, whose callers hold the writing flag")
			}
		})
	}
	r.count("R18.1", "eventConn.write/writev call sites", nInv, 1)
	rg := p.writingRegion()
	nCall := 0
	var writers []*ssa.Function
	for _, f := range p.fnList {
		calls := findInstrs(f, p.mCall("(*Session).writeEventData"))
		if len(calls) == 0 {
			continue
		}
		writers = append(writers, f)
		fn := p.fname(f)
		held, _ := p.heldBefore(f, rg, false)
		mh := p.mayHeldBefore(f, rg)
		for _, ci := range calls {
			nCall++
			r.ob("R18.1", fn+": event written only while Session.writing is held", p.ipos(ci), held[ci], true,
				"a write outside the flag lets two events interleave byte-wise on the socket")
		}
		for _, ret := range returnsOf(f) {
			r.ob("R18.1", fn+": Session.writing is released on every exit", p.ipos(ret), !mh[ret] || p.deferredRelease(f, rg), true, "a writer that keeps the flag blocks the send loop and every later fast path")
		}
		// within a loop: the flag must not be held when the loop re-enters the acquire
		for _, b := range f.Blocks {
			for i := range b.Succs {
				if rg.EdgeAcquire(b, i) && len(b.Instrs) > 0 && mh[b.Instrs[0]] {
					// acquiring edge reachable while possibly held would mean a missing release (CAS would fail forever)
					r.fail("R18.1", fn+": flag acquired while possibly still held", p.ipos(b.Instrs[len(b.Instrs)-1]), "missing release on a loop path")
				}
			}
		}
	}
	r.role("event writers (call writeEventData)", p.names(writers))
	r.count("R18.1", "writeEventData call sites", nCall, 3)

	// R18.2 fast-path release wakes the send loop
	isSendLoop := func(f *ssa.Function) bool {
		found := false
		allInstrs(f, func(in ssa.Instruction) {
			if sel, ok := in.(*ssa.Select); ok {
				for _, st := range sel.States {
					if st.Dir == 2 /* RecvOnly */ && isLoadOf(st.Chan, "Session.sendCh") {
						found = true
					}
				}
			}
			if u, ok := in.(*ssa.UnOp); ok && u.Op == token.ARROW && isLoadOf(u.X, "Session.sendCh") {
				found = true
			}
		})
		return found
	}
	notify := M{ID: "notifyContinueWrite", F: func(in ssa.Instruction) bool {
		c, ok := in.(*ssa.Call)
		return ok && p.calleeName(&c.Call) == "asyncNotify" && isLoadOf(c.Call.Args[0], "Session.notifyContinueWriteCh")
	}}
	nRel, nLoop := 0, 0
	// the send loop and the helpers split off it (same receiver, called from nowhere else)
	var loopFam []*ssa.Function
	for _, f := range p.fnList {
		if isSendLoop(f) {
			nLoop++
			fam := p.family(f)
			loopFam = append(loopFam, fam...)
			// the send loop waits for the wake-up inside its acquire retry
			okWait := false
			for _, g := range fam {
				allInstrs(g, func(in ssa.Instruction) {
					if u, ok := in.(*ssa.UnOp); ok && u.Op == token.ARROW && isLoadOf(u.X, "Session.notifyContinueWriteCh") {
						okWait = true
					}
				})
			}
			r.ob("R18.2", p.fname(f)+": the send loop parks on notifyContinueWriteCh while the flag is taken", p.pos(f.Pos()), okWait, true, "")
		}
	}
	for _, f := range p.fnList {
		if inFns(f, loopFam) {
			continue
		}
		for _, rel := range findInstrs(f, M{ID: "rel", F: rg.Release}) {
			nRel++
			res := p.mustPass(f, []Point{pointOf(rel)}, notify.F, nil, nil)
			r.ob("R18.2", p.fname(f)+": a fast-path release of Session.writing wakes the send loop", p.ipos(rel), res.OK, true,
				"the send loop may be parked waiting for the flag; without the notification it never retries: %s", p.pathString(res))
		}
	}
	r.count("R18.2", "fast-path releases", nRel, 1)
	r.count("R18.2", "send loops", nLoop, 1)

	c18WriteLoop(p, r)
	c18Window(p, r, "R18.4")
	epollDemux(p, r, "R18.7")
	// R18.8 a closed connection's descriptor stays open until the event loop is done with the current batch (it is
	// deregistered and closed by the posted function): otherwise a new connection can reuse the number and the stale
	// event of the old one reads the new one's bytes (shared with C14 R14.4)
	borrow(p, r, "C14", runC14, map[string]string{"R14.4": "R18.8"}, func(o Ob) bool { return constructHas(o, "deferredClose") })
	// the window handed to the callback is only valid until commitRead: nothing may retain it
	noEscapeOfEventBuffer(p, r, "R18.6")
	c18Variants(p, r)
}

// R18.3
func c18WriteLoop(p *P, r *R) {
	f := p.fn("(*connEventHandler).write")
	if f == nil {
		r.fail("R18.3", "anchor (*connEventHandler).write", "", "function not found")
		return
	}
	r.Scope["(*connEventHandler).write"] = true
	var data *ssa.Parameter
	for _, prm := range f.Params {
		if isByteSlice(prm.Type()) {
			data = prm
		}
	}
	var sys *ssa.Call
	allInstrs(f, func(in ssa.Instruction) {
		if c, ok := in.(*ssa.Call); ok && strings.HasSuffix(p.calleeName(&c.Call), ".Syscall") {
			sys = c
		}
	})
	if data == nil || sys == nil {
		r.fail("R18.3", "write: data parameter and write syscall", p.pos(f.Pos()), "not found")
		return
	}
	var n0, errv ssa.Value
	for _, ref := range *sys.Referrers() {
		if e, ok := ref.(*ssa.Extract); ok {
			switch e.Index {
			case 0:
				n0 = e
			case 2:
				errv = e
			}
		}
	}
	// accumulator phi: the index used in &data[phi]
	var acc *ssa.Phi
	ptrOK := false
	if ia := findIndexAddrArg(sys.Call.Args[2]); ia != nil && ia.X == ssa.Value(data) {
		if ph, ok := ia.Index.(*ssa.Phi); ok {
			acc = ph
			ptrOK = true
		}
	}
	r.ob("R18.3", "write: the syscall is given &data[written]", p.ipos(sys), ptrOK, true, "")
	if acc == nil {
		return
	}
	lenOK := false
	if sub, ok := stripConv(sys.Call.Args[3]).(*ssa.BinOp); ok && sub.Op == token.SUB && sub.Y == ssa.Value(acc) {
		if c, ok := sub.X.(*ssa.Call); ok {
			if b, ok := c.Call.Value.(*ssa.Builtin); ok && b.Name() == "len" && c.Call.Args[0] == ssa.Value(data) {
				lenOK = true
			}
		}
	}
	r.ob("R18.3", "write: the syscall is given len(data)-written", p.ipos(sys), lenOK, true, "")
	edgesOK := true
	var adv *ssa.BinOp
	for _, e := range acc.Edges {
		if e == ssa.Value(acc) {
			continue
		}
		if c, ok := constInt(e); ok && c == 0 {
			continue
		}
		if b, ok := e.(*ssa.BinOp); ok && b.Op == token.ADD && b.X == ssa.Value(acc) && n0 != nil && stripConv(b.Y) == n0 {
			adv = b
			continue
		}
		edgesOK = false
	}
	r.ob("R18.3", "write: the cursor starts at 0, is advanced by exactly the syscall result, and is otherwise unchanged", p.ipos(acc), edgesOK && adv != nil, true, "")
	if adv != nil && errv != nil {
		isErr := func(v ssa.Value) bool { return v == errv }
		isZero := func(v ssa.Value) bool { c, ok := constInt(v); return ok && c == 0 }
		okEdge := false
		for _, fct := range factsAt(adv.Block()) {
			if relOn(fct.Cond, fct.Truth, isErr, isZero) == "==" {
				okEdge = true
			}
		}
		r.ob("R18.3", "write: the cursor advances only when the syscall reported no error (never on EAGAIN)", p.ipos(adv), okEdge, true, "")
	}
	// success only when everything is written
	for _, ret := range returnsOf(f) {
		if !isNilConst(lastResult(ret)) {
			continue
		}
		ok := false
		isAcc := func(v ssa.Value) bool { return v == ssa.Value(acc) }
		isLen := func(v ssa.Value) bool {
			c, okc := v.(*ssa.Call)
			if !okc {
				return false
			}
			b, okb := c.Call.Value.(*ssa.Builtin)
			return okb && b.Name() == "len" && c.Call.Args[0] == ssa.Value(data)
		}
		for _, fct := range factsAt(ret.Block()) {
			if rel := relOn(fct.Cond, fct.Truth, isAcc, isLen); rel == ">=" || rel == "==" {
				ok = true
			}
		}
		r.ob("R18.3", "write: returns success only when written >= len(data)", p.ipos(ret), ok, true, "")
	}
	// EAGAIN waits for writability
	if errv != nil {
		waits := false
		allInstrs(f, func(in ssa.Instruction) {
			if u, ok := in.(*ssa.UnOp); ok && u.Op == token.ARROW && isLoadOf(u.X, "connEventHandler.onWriteReadyCh") {
				waits = true
			}
		})
		r.ob("R18.3", "write: EAGAIN waits for the write-ready notification", p.pos(f.Pos()), waits, false, "")
	}
}

func findIndexAddrArg(v ssa.Value) *ssa.IndexAddr {
	for i := 0; i < 4; i++ {
		switch x := v.(type) {
		case *ssa.Convert:
			v = x.X
		case *ssa.IndexAddr:
			return x
		default:
			return nil
		}
	}
	return nil
}

// R18.4
func c18Window(p *P, r *R, rule string) {
	const rb, so, eo = "connEventHandler.readBuffer", "connEventHandler.readStartOff", "connEventHandler.readEndOff"
	nSlice, nStore := 0, 0
	for _, f := range p.fnList {
		fn := p.fname(f)
		allInstrs(f, func(in ssa.Instruction) {
			switch x := in.(type) {
			case *ssa.Slice:
				if !isLoadOf(x.X, rb) {
					return
				}
				nSlice++
				// classify by use
				stored := false
				for _, ref := range *x.Referrers() {
					if st, ok := ref.(*ssa.Store); ok && wordOf(st.Addr) == rb {
						stored = true
					}
				}
				if stored {
					// shrink: only when nothing is pending
					isS := func(v ssa.Value) bool { return isLoadOf(v, so) }
					isE := func(v ssa.Value) bool { return isLoadOf(v, eo) }
					ok := false
					for _, fct := range factsAt(x.Block()) {
						if relOn(fct.Cond, fct.Truth, isS, isE) == "==" {
							ok = true
						}
					}
					r.ob(rule, fn+": the receive buffer is re-sliced (shrunk) only when start==end", p.ipos(in), ok && x.Low == nil, true, "shrinking while bytes are pending drops them")
					return
				}
				win := x.Low != nil && x.High != nil && isLoadOf(x.Low, so) && isLoadOf(x.High, eo)
				r.ob(rule, fn+": a window of the receive buffer that leaves the handler is exactly [readStartOff:readEndOff]", p.ipos(in), win, true,
					"handing out [0:end] duplicates bytes after a partial commit; [start:len] invents bytes")
				// the loads feeding the window must not follow a store to the same offset in this function
				for _, bound := range []struct {
					v    ssa.Value
					word string
				}{{x.Low, so}, {x.High, eo}} {
					ld, ok := stripConv(bound.v).(*ssa.UnOp)
					if !ok {
						continue
					}
					stale := false
					allInstrs(f, func(si ssa.Instruction) {
						if st, ok := si.(*ssa.Store); ok && wordOf(st.Addr) == bound.word {
							if c, isC := constInt(st.Val); isC && c == 0 && p.reaches(si, ld, nil) {
								stale = true
							}
						}
					})
					r.ob(rule, fn+": the window bound "+bound.word+" is read before any reset of it", p.ipos(ld), !stale, true,
						"a window computed after the offset was reset to 0 re-delivers committed bytes")
				}
			case *ssa.Store:
				w := wordOf(x.Addr)
				switch w {
				case so:
					nStore++
					ok, why := false, ""
					if c, isC := constInt(x.Val); isC && c == 0 {
						ok, why = c18ResetOK(p, f, x, so, eo)
					} else if b, isB := x.Val.(*ssa.BinOp); isB && b.Op == token.ADD && isLoadOf(b.X, so) {
						_, isParam := b.Y.(*ssa.Parameter)
						ok, why = isParam, "advance by the committed byte count"
					}
					r.ob(rule, fn+": store to readStartOff is a commit (+n) or a justified reset", p.ipos(in), ok, true, "%s", why)
				case eo:
					nStore++
					ok, why := false, ""
					if c, isC := constInt(x.Val); isC && c == 0 {
						ok, why = c18ResetOK(p, f, x, so, eo)
					} else if b, isB := x.Val.(*ssa.BinOp); isB && b.Op == token.ADD && isLoadOf(b.X, eo) {
						if e, isE := stripConv(b.Y).(*ssa.Extract); isE && e.Index == 0 {
							if c, isCall := e.Tuple.(*ssa.Call); isCall && strings.Contains(p.calleeName(&c.Call), "Syscall") {
								ok, why = true, "advance by the read syscall's result"
							}
						}
					} else if c, isCall := x.Val.(*ssa.Call); isCall {
						if b, isB := c.Call.Value.(*ssa.Builtin); isB && b.Name() == "copy" {
							ok, why = true, "pending bytes carried into the grown buffer"
						}
					}
					r.ob(rule, fn+": store to readEndOff is +read-result, the grow copy count, or a justified reset", p.ipos(in), ok, true, "%s", why)
				case rb:
					nStore++
					// grown buffer: must be the destination of the copy of the pending window
					if _, isSl := x.Val.(*ssa.Slice); isSl {
						return // shrink handled above
					}
					ok := false
					if mk, isMk := x.Val.(*ssa.MakeSlice); isMk {
						allInstrs(f, func(ci ssa.Instruction) {
							if c, isCall := ci.(*ssa.Call); isCall {
								if b, isB := c.Call.Value.(*ssa.Builtin); isB && b.Name() == "copy" && c.Call.Args[0] == ssa.Value(mk) && instrDominates(c, x) {
									ok = true
								}
							}
						})
						if f.Name() == "newConnection" {
							ok = true
						}
					}
					if _, isAlloc := x.Addr.(*ssa.FieldAddr).X.(*ssa.Alloc); isAlloc {
						ok = true // constructor
					}
					r.ob(rule, fn+": a new receive buffer is installed only after the pending window was copied into it", p.ipos(in), ok, true, "")
				}
			case *ssa.IndexAddr:
				if isLoadOf(x.X, rb) {
					nSlice++
					r.ob(rule, fn+": the read syscall appends at readBuffer[readEndOff]", p.ipos(in), isLoadOf(x.Index, eo), true, "")
				}
			}
		})
	}
	r.count(rule, "slices/indexes of the receive buffer", nSlice, 4)
	r.count(rule, "stores to the receive window state", nStore, 6)
	// read length = len(readBuffer) - readEndOff
	if f := p.fn("(*connEventHandler).onReadReady"); f != nil {
		allInstrs(f, func(in ssa.Instruction) {
			c, ok := in.(*ssa.Call)
			if !ok || !strings.HasSuffix(p.calleeName(&c.Call), "Syscall") || len(c.Call.Args) < 4 {
				return
			}
			okLen := false
			if sub, ok := stripConv(c.Call.Args[3]).(*ssa.BinOp); ok && sub.Op == token.SUB && isLoadOf(sub.Y, eo) {
				if lc, ok := sub.X.(*ssa.Call); ok {
					if b, ok := lc.Call.Value.(*ssa.Builtin); ok && b.Name() == "len" && isLoadOf(lc.Call.Args[0], rb) {
						okLen = true
					}
				}
			}
			r.ob(rule, "onReadReady: the read syscall is limited to len(readBuffer)-readEndOff", p.ipos(in), okLen, true, "")
		})
		// the grow step runs before each read
		r.ob(rule, "onReadReady: the buffer is grown (if full) before every read", p.pos(f.Pos()),
			len(findInstrs(f, p.mCall("(*connEventHandler).maybeExpandReadBuffer"))) > 0, false, "")
	} else {
		r.fail(rule, "anchor (*connEventHandler).onReadReady", "", "function not found")
	}
}

// c18ResetOK: a reset of an offset to 0 is fine (a) on the start==end edge (commitRead) or (b) in the
// grow step, after the pending window was copied.
func c18ResetOK(p *P, f *ssa.Function, st *ssa.Store, so, eo string) (bool, string) {
	isS := func(v ssa.Value) bool { return isLoadOf(v, so) }
	isE := func(v ssa.Value) bool { return isLoadOf(v, eo) }
	for _, fct := range factsAt(st.Block()) {
		if relOn(fct.Cond, fct.Truth, isS, isE) == "==" {
			return true, "reset on the start==end edge"
		}
	}
	ok := false
	allInstrs(f, func(ci ssa.Instruction) {
		if c, isCall := ci.(*ssa.Call); isCall {
			if b, isB := c.Call.Value.(*ssa.Builtin); isB && b.Name() == "copy" && instrDominates(c, st) {
				if sl, isSl := c.Call.Args[1].(*ssa.Slice); isSl && isLoadOf(sl.X, "connEventHandler.readBuffer") {
					ok = true
				}
			}
		}
	})
	if ok {
		return true, "reset after the pending window was copied (grow step)"
	}
	if _, isAlloc := st.Addr.(*ssa.FieldAddr).X.(*ssa.Alloc); isAlloc {
		return true, "constructor"
	}
	return false, "reset of a window offset outside the start==end edge and outside the grow step"
}

// R18.5: build-variant files must be the same program modulo an allow-list.
func c18Variants(p *P, r *R) {
	pairs := []struct {
		a, b  string
		allow map[string]string
	}{
		{"event_dispatcher_linux.go", "event_dispatcher_race_linux.go", map[string]string{
			"(*connEventHandler).setCallback": "epoll user data: handler pointer vs fd (race detector forbids the pointer cast)",
			"(*epollDispatcher).runLoop":      "epoll user data decoding",
		}},
		{"epoll_linux.go", "epoll_linux_arm64.go", map[string]string{
			"epollWait":       "epoll_pwait vs epoll_wait syscall numbers",
			"TYPE epollEvent": "arm64 struct has a padding field",
		}},
	}
	for _, pr := range pairs {
		fa, ea := declTexts(filepath.Join(p.Dir, pr.a))
		fb, eb := declTexts(filepath.Join(p.Dir, pr.b))
		if ea != nil || eb != nil {
			r.fail("R18.5", "variant files "+pr.a+" / "+pr.b+" parse", "", "%v %v", ea, eb)
			continue
		}
		names := map[string]bool{}
		for k := range fa {
			names[k] = true
		}
		for k := range fb {
			names[k] = true
		}
		var ks []string
		for k := range names {
			ks = append(ks, k)
		}
		sort.Strings(ks)
		n := 0
		for _, k := range ks {
			if _, allowed := pr.allow[k]; allowed {
				if fa[k] != fb[k] {
					r.note("%s differs between %s and %s (allowed: %s)", k, pr.a, pr.b, pr.allow[k])
				}
				continue
			}
			n++
			// advisory only: both variants are analysed semantically (race in every tier, arm64 in the thorough tier), so a
			// behaviour-preserving edit of one file must not raise an alarm; textual drift is worth a note for the reviewer.
			if fa[k] != fb[k] {
				r.note("R18.5 (advisory): %s differs textually between %s and %s; both variants are checked by R18.1-R18.4 in their own build configuration", k, pr.a, pr.b)
			}
			r.ob("R18.5", pr.a+" vs "+pr.b+": "+k+" exists in both build variants", "", fa[k] != "" && fb[k] != "", false,
				"a function present in only one variant would escape the rules in the other build")
		}
		r.count("R18.5", "declarations compared in "+pr.a, n, 1)
	}
}

// declTexts parses a file and returns canonical text per top-level function / type declaration.
func declTexts(path string) (map[string]string, error) {
	fset := token.NewFileSet()
	f, err := parser.ParseFile(fset, path, nil, 0)
	if err != nil {
		return nil, err
	}
	out := map[string]string{}
	pr := func(n ast.Node) string {
		var buf bytes.Buffer
		(&printer.Config{Mode: printer.RawFormat}).Fprint(&buf, token.NewFileSet(), n)
		return buf.String()
	}
	for _, d := range f.Decls {
		switch x := d.(type) {
		case *ast.FuncDecl:
			name := x.Name.Name
			if x.Recv != nil && len(x.Recv.List) == 1 {
				t := pr(x.Recv.List[0].Type)
				if strings.HasPrefix(t, "*") {
					name = "(" + t + ")." + name
				} else {
					name = "(" + t + ")." + name
				}
			}
			x.Doc = nil
			out[name] = pr(x)
		case *ast.GenDecl:
			if x.Tok == token.TYPE {
				for _, s := range x.Specs {
					ts := s.(*ast.TypeSpec)
					ts.Doc, ts.Comment = nil, nil
					out["TYPE "+ts.Name.Name] = pr(ts)
				}
			}
		}
	}
	return out, nil
}

// epollDemux (R18.7 / R11.9): a writer that met EAGAIN parks on connEventHandler.onWriteReadyCh and is released only
// by the event loop when epoll reports EPOLLOUT. The connection is registered edge-triggered, so an EPOLLOUT bit that
// is not acted upon is never reported again: in the function that tests the readiness bits of an epoll event, the
// EPOLLOUT-set edge must always reach the write-ready signal, and the EPOLLOUT test must be reached whether or not
// EPOLLIN was set in the same event.
func epollDemux(p *P, r *R, rule string) {
	bits := map[string]int64{}
	for _, path := range []string{"syscall", "golang.org/x/sys/unix"} {
		lp := p.LPkg.Imports[path]
		if lp == nil || lp.Types == nil {
			continue
		}
		for _, nm := range []string{"EPOLLIN", "EPOLLOUT"} {
			if c, ok := lp.Types.Scope().Lookup(nm).(*types.Const); ok {
				if v, okv := constant.Int64Val(constant.ToInt(c.Val())); okv {
					bits[nm] = v
				}
			}
		}
	}
	if bits["EPOLLIN"] == 0 || bits["EPOLLOUT"] == 0 {
		r.fail(rule, "constants syscall.EPOLLIN / EPOLLOUT", "", "not resolved")
		return
	}
	signals := M{ID: "signal onWriteReadyCh", F: func(in ssa.Instruction) bool {
		switch x := in.(type) {
		case *ssa.Call:
			return p.calleeName(&x.Call) == "asyncNotify" && isLoadOf(x.Call.Args[0], "connEventHandler.onWriteReadyCh")
		case *ssa.Send:
			return isLoadOf(x.Chan, "connEventHandler.onWriteReadyCh")
		}
		return false
	}}
	// bitTest: `param & K != 0` -> (K, successor index taken when the bit is set)
	bitTest := func(f *ssa.Function, ifi *ssa.If) (int64, int, bool) {
		cond, neg := stripNot(ifi.Cond)
		b, ok := cond.(*ssa.BinOp)
		if !ok || (b.Op != token.NEQ && b.Op != token.EQL) {
			return 0, 0, false
		}
		x, y := b.X, b.Y
		if z, okz := constInt(x); okz && z == 0 {
			x, y = y, x
		}
		if z, okz := constInt(y); !okz || z != 0 {
			return 0, 0, false
		}
		and, ok := stripConv(x).(*ssa.BinOp)
		if !ok || and.Op != token.AND {
			return 0, 0, false
		}
		v, k := and.X, and.Y
		if _, isC := constInt(v); isC {
			v, k = k, v
		}
		kk, okk := constInt(k)
		if _, isParam := stripConv(v).(*ssa.Parameter); !okk || !isParam {
			return 0, 0, false
		}
		set := 0 // successor taken when (v&k != 0)
		if (b.Op == token.EQL) != neg {
			set = 1
		}
		return kk, set, true
	}
	n := 0
	for _, f := range p.fnList {
		tests := map[int64]*ssa.If{}
		setEdge := map[int64]int{}
		for _, b := range f.Blocks {
			if ifi := blockIf(b); ifi != nil {
				if k, s, ok := bitTest(f, ifi); ok {
					tests[k], setEdge[k] = ifi, s
				}
			}
		}
		out, in := tests[bits["EPOLLOUT"]], tests[bits["EPOLLIN"]]
		if out == nil && in == nil {
			continue
		}
		fn := p.fname(f)
		if namedName(recvType(f)) != "connEventHandler" {
			continue
		}
		r.Scope[fn] = true
		n++
		if out == nil {
			r.fail(rule, fn+": tests the EPOLLOUT bit of the event", p.pos(f.Pos()), "no test of events&EPOLLOUT found")
			continue
		}
		res := p.mustPass(f, []Point{{out.Block().Succs[setEdge[bits["EPOLLOUT"]]], -1}}, func(i2 ssa.Instruction) bool { return p.evMust(i2, signals, 2) || conditionalSignal(p, i2, signals) }, nil, nil)
		r.ob(rule, fn+": an event with EPOLLOUT set always reaches the write-ready signal", p.ipos(out), res.OK, true, "%s", p.pathString(res))
		if in != nil {
			inB := in.Block()
			okBoth := true
			for i := range inB.Succs {
				other := 1 - i
				reach := p.reachesWithout(Point{f.Blocks[0], -1}, out, nil, func(b *ssa.BasicBlock, s int) bool { return !(b == inB && s == other) })
				if !reach {
					okBoth = false
				}
			}
			r.ob(rule, fn+": the EPOLLOUT bit is examined whether or not EPOLLIN is set in the same event", p.ipos(out), okBoth, true,
				"edge-triggered: a writable edge swallowed by a simultaneous readable bit is never reported again and the parked writer hangs")
		}
	}
	r.count(rule, "epoll event demultiplexers of the connection handler", n, 1)
}

// conditionalSignal: the call's callee signals on every path except those on which the handler is already closed
// (close() releases the waiters itself): accepted form `if isClose == 0 { signal }`.
func conditionalSignal(p *P, in ssa.Instruction, signals M) bool {
	g := p.localCallee(in)
	if g == nil {
		return false
	}
	if _, isCall := in.(*ssa.Call); !isCall {
		return false
	}
	ok, _ := p.findBadPath(g, []Point{{g.Blocks[0], -1}}, pathOpts{
		Discharge: func(i2 ssa.Instruction) bool { return signals.F(i2) },
		EdgeOK: func(b *ssa.BasicBlock, i int) bool {
			ifi := blockIf(b)
			if ifi == nil {
				return true
			}
			isClosedFlag := func(v ssa.Value) bool {
				c, okc := v.(*ssa.Call)
				if !okc {
					return false
				}
				a := p.atomicOp(c)
				return a != nil && a.Op == "Load" && a.Word == "connEventHandler.isClose"
			}
			isZero := func(v ssa.Value) bool { k, okk := constInt(v); return okk && k == 0 }
			if rel := relOn(ifi.Cond, i == 0, isClosedFlag, isZero); rel == "!=" || rel == ">" {
				return false // already closed: close() has closed the channel
			}
			return true
		},
	})
	return ok
}
