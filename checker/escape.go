package main

import (
	"go/token"
	"go/types"

	"golang.org/x/tools/go/ssa"
)

// noEscapeOfEventBuffer: the byte slice (and header) that a wire handler receives aliases the
// connection's reused read buffer; it is only valid until commitRead. No alias of it may be stored,
// wrapped, returned or handed to code that retains it — payload that must outlive the call has to be
// copied out. Aliases are followed through slicing, conversion to named byte-slice types and phis,
// and into package-local callees (depth 2).
func noEscapeOfEventBuffer(p *P, r *R, rule string) {
	pureCalls := map[string]bool{
		"(encoding/binary.bigEndian).Uint16": true, "(encoding/binary.bigEndian).Uint32": true, "(encoding/binary.bigEndian).Uint64": true,
	}
	nSites := 0
	type key struct {
		f   *ssa.Function
		prm int
	}
	seen := map[key]bool{}
	var check func(f *ssa.Function, prmIdx int, depth int, origin string)
	check = func(f *ssa.Function, prmIdx int, depth int, origin string) {
		if seen[key{f, prmIdx}] || prmIdx >= len(f.Params) {
			return
		}
		seen[key{f, prmIdx}] = true
		fn := p.fname(f)
		tainted := map[ssa.Value]bool{f.Params[prmIdx]: true}
		// propagate aliases to a fixpoint
		for changed := true; changed; {
			changed = false
			allInstrs(f, func(in ssa.Instruction) {
				v, ok := in.(ssa.Value)
				if !ok || tainted[v] {
					return
				}
				switch x := in.(type) {
				case *ssa.Slice:
					if tainted[x.X] {
						tainted[v], changed = true, true
					}
				case *ssa.ChangeType:
					if tainted[x.X] {
						tainted[v], changed = true, true
					}
				case *ssa.Phi:
					for _, e := range x.Edges {
						if tainted[e] {
							tainted[v], changed = true, true
						}
					}
				}
			})
		}
		allInstrs(f, func(in ssa.Instruction) {
			for _, op := range in.Operands(nil) {
				if *op == nil || !tainted[*op] {
					continue
				}
				nSites++
				ok, why := false, ""
				switch x := in.(type) {
				case *ssa.Slice, *ssa.ChangeType, *ssa.Phi:
					ok = true
				case *ssa.IndexAddr:
					// reading a byte is fine; writing into the connection's buffer is not
					ok = true
					if refs := x.Referrers(); refs != nil {
						for _, ref := range *refs {
							if st, isSt := ref.(*ssa.Store); isSt && st.Addr == ssa.Value(x) {
								ok, why = false, "writes into the event buffer"
							}
						}
					}
				case *ssa.Convert:
					// []byte -> string copies
					if b, isB := x.Type().Underlying().(*types.Basic); isB && b.Info()&types.IsString != 0 {
						ok = true
					} else {
						why = "converted to a pointer/other type"
					}
				case *ssa.BinOp:
					ok = x.Op == token.EQL || x.Op == token.NEQ
				case *ssa.Call:
					cc := &x.Call
					if b, isB := cc.Value.(*ssa.Builtin); isB {
						switch b.Name() {
						case "len", "cap":
							ok = true
						case "copy":
							ok = len(cc.Args) == 2 && cc.Args[1] == *op && cc.Args[0] != *op // source only
							if !ok {
								why = "copy destination is the event buffer"
							}
						case "append":
							// append(dst, alias...) copies the bytes; append(alias, ...) may write into / return the alias
							ok = len(cc.Args) >= 2 && cc.Args[0] != *op
							if !ok {
								why = "append onto the event buffer"
							}
						default:
							why = "builtin " + b.Name()
						}
					} else if pureCalls[p.calleeName(cc)] {
						ok = true
					} else if g := p.localCallee(x); g != nil {
						// follow into the callee: the corresponding parameter must not escape there
						ok = true
						for ai, a := range cc.Args {
							if a == *op {
								check(g, ai, depth-1, origin)
							}
						}
					} else if cc.StaticCallee() == nil && !cc.IsInvoke() {
						// the handler table: every handler's parameter is checked as a root
						ok = true
					} else {
						why = "passed to " + p.calleeName(cc) + " (may retain it)"
					}
				case *ssa.MakeInterface:
					// boxed for a formatting call only (logger / fmt): the box must go nowhere else
					ok = true
					if refs := x.Referrers(); refs != nil {
						for _, ref := range *refs {
							switch u := ref.(type) {
							case *ssa.Store:
								if ia, isIA := u.Addr.(*ssa.IndexAddr); !isIA {
									ok = false
								} else if _, isAlloc := ia.X.(*ssa.Alloc); !isAlloc {
									ok = false
								}
							case *ssa.Call:
								n := p.calleeName(&u.Call)
								if !(len(n) > 9 && n[:9] == "(*logger)") {
									ok = false
								}
							default:
								ok = false
							}
						}
					}
					if !ok {
						why = "boxed into an interface that is stored or passed on"
					}
				case *ssa.Store:
					if x.Val == *op {
						why = "stored into memory that outlives the handler"
						if _, isAlloc := x.Addr.(*ssa.Alloc); isAlloc {
							ok = true // local variable
						}
					} else {
						ok = true
					}
				case *ssa.Return:
					why = "returned to the caller"
				case *ssa.MakeClosure, *ssa.Go, *ssa.Defer, *ssa.Send, *ssa.MapUpdate:
					why = "captured / sent / deferred"
				default:
					why = "unclassified use"
				}
				r.ob(rule, fn+": alias of the connection's read buffer ("+origin+") does not outlive the event — use: "+describeUse(p, in), p.ipos(in), ok, true,
					"the buffer is reused for the next read: payload that must outlive the handler has to be copied out (%s)", why)
			}
		})
	}
	for _, h := range p.wireHandlers() {
		for i, prm := range h.Params {
			if isByteSlice(prm.Type()) {
				check(h, i, 2, p.fname(h)+" "+prm.Name())
			}
		}
	}
	if he := p.fn("(*Session).handleEvents"); he != nil {
		for i, prm := range he.Params {
			if isByteSlice(prm.Type()) {
				check(he, i, 2, "handleEvents "+prm.Name())
			}
		}
	}
	if od := p.fn("(*Session).onEventData"); od != nil {
		for i, prm := range od.Params {
			if isByteSlice(prm.Type()) {
				check(od, i, 2, "onEventData "+prm.Name())
			}
		}
	}
	r.count(rule, "uses of event-buffer aliases", nSites, 15)
}

func describeUse(p *P, in ssa.Instruction) string {
	switch x := in.(type) {
	case *ssa.Call:
		if b, ok := x.Call.Value.(*ssa.Builtin); ok {
			return b.Name() + "()"
		}
		if n := p.calleeName(&x.Call); n != "" {
			return "call " + n
		}
		return "table call"
	case *ssa.Slice:
		return "re-slice"
	case *ssa.IndexAddr:
		return "index"
	case *ssa.Store:
		return "store"
	case *ssa.Return:
		return "return"
	case *ssa.MakeInterface:
		return "boxed for formatting"
	case *ssa.ChangeType:
		return "type change"
	case *ssa.Phi:
		return "phi"
	case *ssa.Convert:
		return "conversion"
	case *ssa.BinOp:
		return "comparison"
	}
	return "other"
}
