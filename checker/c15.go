package main

import (
	"go/token"
	"strings"

	"golang.org/x/tools/go/ssa"
)

func init() {
	register(&property{
		ID: "C15",
		Explanation: "Decides the pool's ownership discipline on every path: a stream taken out of the ring is returned to the caller or closed (getter and pool close); a stream given back is kept (successful push) or closed; a pooled stream is handed out only behind !Session().IsClosed() and IsOpen(); reset() hands a stream back for reuse only after refusing non-open / unread / pending ones and after clearing deadlines, fallback mark, callbacks and the stale receive notification; fallback streams are closed, not pooled; " +
			"ring state is touched only under the pool mutex, which is released on every exit, and head/tail advance exactly once per successful pop/push. NOT decided: histories with concurrent peer closes and session loss (a stream can turn bad right after the check), equality of the active-stream count over histories.",
		RuleText: "R15.1 path search per pop() result in the getter/closer; R15.2 path search over putOrCloseStream; R15.3 dominance of hand-out and reuse guards, stores required before reset()'s nil return; R15.4 must-held dataflow of streamPool.Mutex at every access to streams/head/tail.",
		Run:      runC15,
	})
}

func runC15(p *P, r *R) {
	pop := p.fn("(*streamPool).pop")
	push := p.fn("(*streamPool).push")
	put := p.fn("(*streamPool).putOrCloseStream")
	if pop == nil || push == nil || put == nil {
		r.fail("R15.1", "anchors (*streamPool).pop/push/putOrCloseStream", "", "not found")
		return
	}
	mPop := p.mCall("(*streamPool).pop")
	closeOf := func(x ssa.Value) func(in ssa.Instruction) bool {
		return func(in ssa.Instruction) bool {
			c, ok := in.(*ssa.Call)
			if ok && p.calleeName(&c.Call) == "(*Stream).Close" && c.Call.Args[0] == x {
				return true
			}
			if ret, ok := in.(*ssa.Return); ok && len(ret.Results) > 0 && resultOf(ret, 0) == x {
				return true
			}
			return false
		}
	}
	// R15.1
	n := 0
	for _, f := range p.fnList {
		if f == pop {
			continue
		}
		pops := findInstrs(f, mPop)
		if len(pops) == 0 {
			continue
		}
		fn := p.fname(f)
		r.Scope[fn] = true
		// the popped value may flow through a loop phi: group pops by the phi (or themselves)
		for _, pi := range pops {
			n++
			var x ssa.Value = pi.(*ssa.Call)
			for _, ref := range *x.Referrers() {
				if ph, ok := ref.(*ssa.Phi); ok {
					x = ph
				}
			}
			start := pointOf(pi)
			if ph, ok := x.(*ssa.Phi); ok {
				start = Point{ph.Block(), -1}
				// only start at the phi once the pop has flowed in: use the pop site and let the walk pass the phi block
				start = pointOf(pi)
			}
			disp := closeOf(x)
			okp, res := p.findBadPath(f, []Point{start}, pathOpts{
				Discharge: disp,
				Bad: func(in ssa.Instruction) bool {
					if _, isRet := in.(*ssa.Return); isRet {
						return true
					}
					return mPop.F(in) && in != pi || (mPop.F(in) && in == pi)
				},
				EdgeOK: func(b *ssa.BasicBlock, i int) bool {
					ifi := blockIf(b)
					if ifi == nil {
						return true
					}
					isX := func(v ssa.Value) bool { return v == x || v == ssa.Value(pi.(*ssa.Call)) }
					return relOn(ifi.Cond, i == 0, isX, isNilConst) != "=="
				},
			})
			r.ob("R15.1", fn+": a stream taken out of the pool is returned to the caller or closed", p.ipos(pi), okp, true,
				"a popped stream that is simply dropped stays in the session's stream table forever (leak): %s", p.pathString(res))
		}
	}
	r.count("R15.1", "pop() sites outside pop", n, 2)

	// R15.2
	var s *ssa.Parameter
	for _, prm := range put.Params {
		if namedName(prm.Type()) == "Stream" {
			s = prm
		}
	}
	isPushRes := func(v ssa.Value) bool {
		c, ok := v.(*ssa.Call)
		return ok && p.calleeName(&c.Call) == "(*streamPool).push"
	}
	okPut, res := p.findBadPath(put, []Point{{put.Blocks[0], -1}}, pathOpts{
		Discharge: func(in ssa.Instruction) bool {
			c, ok := in.(*ssa.Call)
			return ok && p.calleeName(&c.Call) == "(*Stream).Close" && c.Call.Args[0] == ssa.Value(s)
		},
		EdgeOK: func(b *ssa.BasicBlock, i int) bool {
			ifi := blockIf(b)
			if ifi == nil {
				return true
			}
			return relOn(ifi.Cond, i == 0, isPushRes, isNilConst) != "==" // kept in the pool
		},
	})
	r.ob("R15.2", "putOrCloseStream: a stream given back is kept (push succeeded) or closed", p.pos(put.Pos()), okPut, true, "%s", p.pathString(res))
	for _, ci := range findInstrs(put, p.mCall("(*streamPool).push")) {
		isFb := func(v ssa.Value) bool { return isLoadOf(v, "Stream.inFallbackState") }
		notFb := false
		for _, fct := range factsAt(ci.Block()) {
			c, neg := stripNot(fct.Cond)
			if isFb(c) && fct.Truth == neg {
				notFb = true
			}
		}
		isReset := func(v ssa.Value) bool {
			c, ok := v.(*ssa.Call)
			return ok && p.calleeName(&c.Call) == "(*Stream).reset"
		}
		resetOK := false
		for _, fct := range factsAt(ci.Block()) {
			if relOn(fct.Cond, fct.Truth, isReset, isNilConst) == "==" {
				resetOK = true
			}
		}
		r.ob("R15.3", "putOrCloseStream: only a stream that is not in fallback state is pooled", p.ipos(ci), notFb, true, "a fallback stream would keep sending through the socket after reuse")
		r.ob("R15.3", "putOrCloseStream: only a stream whose reset() succeeded is pooled", p.ipos(ci), resetOK, true, "")
	}

	// R15.3 hand-out guards
	get := p.fn("(*streamPool).getOrOpenStream")
	if get == nil {
		r.fail("R15.3", "anchor (*streamPool).getOrOpenStream", "", "not found")
	} else {
		nRet := 0
		for _, ret := range returnsOf(get) {
			v := resultOf(ret, 0)
			fromPop := derivedFrom(v, func(x ssa.Value) bool { c, ok := x.(*ssa.Call); return ok && mPop.F(c) }, 3)
			if !fromPop {
				continue
			}
			nRet++
			r.ob("R15.3", "getOrOpenStream: a pooled stream is handed out only if it is open", p.ipos(ret), p.guardedByCall(ret, p.mCall("(*Stream).IsOpen"), true), true, "")
			r.ob("R15.3", "getOrOpenStream: a pooled stream is handed out only if its session is alive", p.ipos(ret), p.guardedByCall(ret, p.mCall("(*Session).IsClosed"), false), true, "")
		}
		r.count("R15.3", "returns of pooled streams", nRet, 1)
	}
	// R15.5 a stream opened by the pool remembers its pool (PutBack finds its way home), and PutBack uses it
	if get != nil {
		okPool := false
		for _, ret := range returnsOf(get) {
			v := resultOf(ret, 0)
			if e, ok := v.(*ssa.Extract); ok {
				if c, ok := e.Tuple.(*ssa.Call); ok && p.calleeName(&c.Call) == "(*Session).OpenStream" {
					for _, si := range findInstrs(get, mStoreWord("Stream.pool")) {
						if instrDominates(si, ret) && si.(*ssa.Store).Addr.(*ssa.FieldAddr).X == v {
							if _, isParam := si.(*ssa.Store).Val.(*ssa.Parameter); isParam {
								okPool = true
							}
						}
					}
				}
			}
		}
		r.ob("R15.5", "getOrOpenStream: a freshly opened stream records the pool it belongs to", p.pos(get.Pos()), okPool, true,
			"PutBack looks the pool up in the stream: a stream without it is silently dropped (never pooled, never closed)")
	}
	if pb := p.fn("(*SessionManager).PutBack"); pb != nil {
		ok := false
		for _, ci := range findInstrs(pb, p.mCall("(*streamPool).putOrCloseStream")) {
			c := ci.(*ssa.Call)
			if isLoadOf(c.Call.Args[0], "Stream.pool") {
				if _, isParam := c.Call.Args[1].(*ssa.Parameter); isParam {
					ok = true
				}
			}
		}
		r.ob("R15.5", "PutBack hands the stream to its own pool", p.pos(pb.Pos()), ok, true, "")
	}
	if rs := p.fn("(*Stream).reset"); rs != nil {
		for _, ret := range returnsOf(rs) {
			if !isNilConst(lastResult(ret)) {
				continue
			}
			okOpen := p.guardedByCall(ret, p.mCall("(*Stream).IsOpen"), true)
			isLenCall := func(v ssa.Value) bool {
				c, ok := v.(*ssa.Call)
				return ok && p.calleeName(&c.Call) == "(*linkedBuffer).Len"
			}
			isPend := func(v ssa.Value) bool {
				c, ok := v.(*ssa.Call)
				if !ok {
					return false
				}
				b, ok := c.Call.Value.(*ssa.Builtin)
				return ok && b.Name() == "len" && isLoadOf(c.Call.Args[0], "pendingData.unread")
			}
			isZero := func(v ssa.Value) bool { c, ok := constInt(v); return ok && c == 0 }
			okUnread, okPend := false, false
			for _, fct := range factsAt(ret.Block()) {
				if rel := relOn(fct.Cond, fct.Truth, isLenCall, isZero); rel == "<=" || rel == "==" {
					okUnread = true
				}
				if rel := relOn(fct.Cond, fct.Truth, isPend, isZero); rel == "<=" || rel == "==" {
					okPend = true
				}
			}
			r.ob("R15.3", "reset: refuses a stream that is not open", p.ipos(ret), okOpen, true, "")
			r.ob("R15.3", "reset: refuses a stream with unread bytes", p.ipos(ret), okUnread, true, "a reused stream must carry no bytes from an earlier use")
			r.ob("R15.3", "reset: refuses a stream with pending arrivals", p.ipos(ret), okPend, true, "")
			for _, w := range []string{"Stream.readDeadline", "Stream.writeDeadline", "Stream.inFallbackState"} {
				okw := false
				for _, si := range findInstrs(rs, mStoreWord(w)) {
					if instrDominates(si, ret) {
						okw = true
					}
				}
				r.ob("R15.3", "reset: clears "+w+" before handing the stream back", p.ipos(ret), okw, true, "")
			}
			okCb := false
			for _, ci := range findInstrs(rs, p.mCall("(*Stream).setCallbacks")) {
				if instrDominates(ci, ret) && isNilConst(ci.(*ssa.Call).Call.Args[1]) {
					okCb = true
				}
			}
			r.ob("R15.3", "reset: drops the callbacks before handing the stream back", p.ipos(ret), okCb, true, "")
			okDrain := false
			allInstrs(rs, func(in ssa.Instruction) {
				if sel, ok := in.(*ssa.Select); ok && !sel.Blocking {
					for _, st := range sel.States {
						if st.Dir == 2 && isLoadOf(st.Chan, "Stream.recvNotifyCh") && instrDominates(in, ret) {
							okDrain = true
						}
					}
				}
			})
			r.ob("R15.3", "reset: drains a stale receive notification", p.ipos(ret), okDrain, true, "")
		}
		// a refused stream is closed by the pool right away: reset must leave it exactly as it found it, in
		// particular with its callbacks still installed (Close hands a running callback the job of finishing the
		// close through them) — no mutation of the stream may be followed by an error exit
		// ... restricted to the state the close path consults (callbacks, fallback latch, ...): computed, not listed
		closeReads := map[string]bool{}
		var closeFns []*ssa.Function
		for _, nm := range []string{"(*Stream).Close", "(*Stream).close"} {
			if cf := p.fn(nm); cf != nil {
				closeFns = append(closeFns, p.family(cf)...)
			}
		}
		var collect func(f *ssa.Function, depth int)
		seenF := map[*ssa.Function]bool{}
		collect = func(f *ssa.Function, depth int) {
			if seenF[f] || depth < 0 {
				return
			}
			seenF[f] = true
			allInstrs(f, func(in ssa.Instruction) {
				if u, ok := in.(*ssa.UnOp); ok && u.Op == token.MUL {
					if w := wordOf(u.X); strings.HasPrefix(w, "Stream.") {
						closeReads[w] = true
					}
				}
				if a := p.atomicOp(in); a != nil && strings.HasPrefix(a.Word, "Stream.") {
					closeReads[a.Word] = true
				}
				if g := p.localCallee(in); g != nil && namedName(recvType(g)) == "Stream" {
					collect(g, depth-1)
				}
			})
		}
		for _, cf := range closeFns {
			collect(cf, 2)
		}
		storedWords := func(in ssa.Instruction) []string {
			var ws []string
			if s2, ok := in.(*ssa.Store); ok {
				if w := wordOf(s2.Addr); strings.HasPrefix(w, "Stream.") {
					ws = append(ws, w)
				}
			}
			if a := p.atomicOp(in); a != nil && a.Op != "Load" && strings.HasPrefix(a.Word, "Stream.") {
				ws = append(ws, a.Word)
			}
			return ws
		}
		nMut := 0
		mutates := func(in ssa.Instruction) (string, bool) {
			for _, w := range storedWords(in) {
				if closeReads[w] {
					return "store to " + w, true
				}
			}
			if x, ok := in.(*ssa.Call); ok {
				if g := p.localCallee(x); g != nil && namedName(recvType(g)) == "Stream" {
					hit := ""
					st := M{ID: "stores state the close path reads", F: func(i2 ssa.Instruction) bool {
						for _, w := range storedWords(i2) {
							if closeReads[w] {
								hit = w
								return true
							}
						}
						return false
					}}
					if p.may(g, st, 2) {
						return "call of " + p.fname(g) + " (writes " + hit + ")", true
					}
				}
			}
			return "", false
		}
		allInstrs(rs, func(in ssa.Instruction) {
			what, ok := mutates(in)
			if !ok {
				return
			}
			nMut++
			okp, res := p.findBadPath(rs, []Point{pointOf(in)}, pathOpts{Bad: func(i2 ssa.Instruction) bool {
				ret, isRet := i2.(*ssa.Return)
				return isRet && isErrorExit(ret)
			}})
			r.ob("R15.3", "reset: "+what+", which the close path consults, happens only once the stream is certain to be accepted (no error exit follows)", p.ipos(in), okp, true, "%s", p.pathString(res))
		})
		r.count("R15.3", "mutations in reset of state the close path consults", nMut, 2)
	} else {
		r.fail("R15.3", "anchor (*Stream).reset", "", "not found")
	}

	// R15.4 ring under the mutex
	rg := p.mutexRegion("streamPool.Mutex")
	ring := map[string]bool{"streamPool.streams": true, "streamPool.head": true, "streamPool.tail": true}
	nAcc := 0
	for _, f := range p.fnList {
		var held map[ssa.Instruction]bool
		fn := p.fname(f)
		allInstrs(f, func(in ssa.Instruction) {
			var addr ssa.Value
			switch x := in.(type) {
			case *ssa.Store:
				addr = x.Addr
			case *ssa.UnOp:
				if x.Op == token.MUL {
					addr = x.X
				}
			}
			if addr == nil || !ring[wordOf(addr)] {
				return
			}
			if _, isAlloc := addr.(*ssa.FieldAddr).X.(*ssa.Alloc); isAlloc {
				return // constructor
			}
			if held == nil {
				held, _ = p.heldBefore(f, rg, false)
			}
			nAcc++
			r.ob("R15.4", fn+": ring state "+wordOf(addr)+" is accessed under the pool mutex", p.ipos(in), held[in], true, "no stream may be handed to two callers")
		})
	}
	r.count("R15.4", "ring state accesses", nAcc, 6)
	for _, f := range []*ssa.Function{pop, push} {
		mh := p.mayHeldBefore(f, rg)
		for _, ret := range returnsOf(f) {
			r.ob("R15.4", p.fname(f)+": the pool mutex is released on every exit", p.ipos(ret), !mh[ret] || p.deferredRelease(f, rg), true, "")
		}
	}
	// head advances exactly once per non-nil pop; tail once per successful push
	adv := func(f *ssa.Function, word string, succ func(v ssa.Value) bool, what string) {
		stores := findInstrs(f, mStoreWord(word))
		for _, ret := range returnsOf(f) {
			if f.Recover != nil && ret.Block() == f.Recover {
				continue
			}
			// one case per way of reaching this exit with a distinct result: a result merged by a phi (single-exit
			// style) is judged per incoming edge
			type rcase struct {
				v  ssa.Value
				at *ssa.BasicBlock
			}
			cases := []rcase{{resultOf(ret, 0), ret.Block()}}
			if ph, ok := cases[0].v.(*ssa.Phi); ok {
				cases = nil
				for i, e := range ph.Edges {
					cases = append(cases, rcase{e, ph.Block().Preds[i]})
				}
			}
			for _, c := range cases {
				cnt := 0
				for _, st := range stores {
					sb := st.Block()
					if sb == c.at && c.at != ret.Block() || sb != c.at && sb.Dominates(c.at) || c.at == ret.Block() && instrDominates(st, ret) {
						cnt++
						bo, ok := st.(*ssa.Store).Val.(*ssa.BinOp)
						if !ok || bo.Op != token.ADD || !isLoadOf(bo.X, word) {
							cnt += 10
						} else if k, okc := constInt(bo.Y); !okc || k != 1 {
							cnt += 10
						}
					}
				}
				want := 0
				if succ(c.v) {
					want = 1
				}
				r.ob("R15.4", p.fname(f)+": "+what, p.ipos(ret), cnt == want, true, "%d advance(s) of %s on this exit, want %d", cnt, word, want)
			}
		}
	}
	adv(pop, "streamPool.head", func(v ssa.Value) bool { return !isNilConst(v) }, "head advances exactly once when a stream is handed out and never otherwise")
	adv(push, "streamPool.tail", func(v ssa.Value) bool { return isNilConst(v) }, "tail advances exactly once when a stream is stored and never otherwise")
	// pop reads the slot at head, push writes the slot at tail, both modulo capacity
	idxOK := func(f *ssa.Function, word string) bool {
		ok := false
		allInstrs(f, func(in ssa.Instruction) {
			if ia, isIA := in.(*ssa.IndexAddr); isIA && isLoadOf(ia.X, "streamPool.streams") {
				// the slot is (64-bit counter) % capacity: the counter must not be narrowed before the remainder is taken
				// (for a capacity that is not a power of two, (uint32(c)) % cap jumps when c crosses 2^32)
				if rem, isB := stripConv(ia.Index).(*ssa.BinOp); isB && rem.Op == token.REM && !narrows(rem.X) && isLoadOf(rem.X, word) && isLoadOf(stripConv(rem.Y), "streamPool.capacity") {
					ok = true
				}
			}
		})
		return ok
	}
	r.ob("R15.4", "pop: reads the slot streams[head%capacity]", p.pos(pop.Pos()), idxOK(pop, "streamPool.head"), true, "")
	r.ob("R15.4", "push: writes the slot streams[tail%capacity]", p.pos(push.Pos()), idxOK(push, "streamPool.tail"), true, "")
	// R15.6 making a stream reusable never drops buffers it still owns (shared with C09 R09.12)
	borrow(p, r, "C09", runC09, map[string]string{"R09.12": "R15.6"}, nil)
	c15HandsOff(p, r)
	registrationOnlyWhenAbsent(p, r, "R15.8")
}

// c15HandsOff (R15.7): once a stream has been pushed into the pool another caller may pop it at any moment, so the
// returning caller must be finished with it: on the edge where the push succeeded nothing touches the stream any
// more (all clean-up — reset, release and reuse of the read buffer — happens before the push). Otherwise the stream
// is in effect held by two callers and carries state of its earlier use.
func c15HandsOff(p *P, r *R) {
	n := 0
	for _, f := range p.fnList {
		for _, ci := range findInstrs(f, p.mCall("(*streamPool).push")) {
			c := ci.(*ssa.Call)
			if len(c.Call.Args) < 2 {
				continue
			}
			st := c.Call.Args[1]
			n++
			okp, res := p.findBadPath(f, []Point{pointOf(c)}, pathOpts{
				Bad: func(in ssa.Instruction) bool {
					if in == ssa.Instruction(c) {
						return false
					}
					if _, isRet := in.(*ssa.Return); isRet {
						return false
					}
					return usesValue(in, st)
				},
				EdgeOK: func(b *ssa.BasicBlock, i int) bool { return !edgeKnownNonNil(b, i, c) }, // the push failed: not pooled, still ours
			})
			r.ob("R15.7", p.fname(f)+": a stream is not touched any more once it was pushed into the pool", p.ipos(c), okp, true, "%s", p.pathString(res))
		}
	}
	r.count("R15.7", "pool push sites", n, 1)
}

// narrows: some integer conversion on the way from the underlying value to v drops bits.
func narrows(v ssa.Value) bool {
	for {
		c, ok := v.(*ssa.Convert)
		if !ok {
			return false
		}
		ws, wd := sizeofBasic(c.X.Type()), sizeofBasic(c.Type())
		if ws != 0 && wd != 0 && wd < ws {
			return true
		}
		v = c.X
	}
}

// registrationOnlyWhenAbsent (R15.8 / R07.9): a stream is entered into the session's table under an id only on the edge
// on which the table was found to hold no entry for that id — whatever state a still-registered stream is in, its id
// is taken: the holder's later close removes "its" entry by id, which would then be the newcomer's.
func registrationOnlyWhenAbsent(p *P, r *R, rule string) {
	n := 0
	for _, f := range p.fnList {
		allInstrs(f, func(in ssa.Instruction) {
			mu, ok := in.(*ssa.MapUpdate)
			if !ok || !isLoadOf(mu.Map, "Session.streams") || isNilConst(mu.Value) {
				return
			}
			n++
			isOk := func(v ssa.Value) bool {
				e, okE := v.(*ssa.Extract)
				if !okE || e.Index != 1 {
					return false
				}
				lk, okL := e.Tuple.(*ssa.Lookup)
				return okL && lk.CommaOk && isLoadOf(lk.X, "Session.streams") && lk.Index == mu.Key
			}
			goodEdge := func(b *ssa.BasicBlock, i int) bool {
				ifi := blockIf(b)
				if ifi == nil {
					return false
				}
				cond, neg := stripNot(ifi.Cond)
				return isOk(cond) && (i == 0) == neg // taken when ok is false
			}
			okp := !p.reachesWithout(Point{f.Blocks[0], -1}, in, nil, func(b *ssa.BasicBlock, i int) bool { return !goodEdge(b, i) })
			r.ob(rule, p.fname(f)+": a stream is registered under an id only when the table holds no entry for that id", p.ipos(in), okp, true,
				"an id that is still registered (in whatever state) must not be handed out again")
		})
	}
	r.count(rule, "registrations in the stream table", n, 2)
}
