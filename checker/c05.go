package main

import (
	"golang.org/x/tools/go/ssa"
)

func init() {
	register(&property{
		ID: "C05",
		Explanation: "Decides the shape of the wake-up hand-shake on every path: each successful enqueue from stream code is followed, before a success exit, by a call that reaches the wake-up routine; the routine's CAS winner always emits a polling event (direct write or hand-over to the send loop); " +
			"the consumer goes idle in the order clear-flag, re-check size, re-set flag if non-empty, and reports idle only on the empty edge; the drain loop ends normally only on the idle-and-empty edge and calls go-idle only after the queue reported empty; the working flag has exactly these writers. " +
			"NOT decided: the liveness claim itself (quiescence implies empty queue) over all interleavings, delivery of the polling event by the socket.",
		RuleText: "R05.1 per call of the queue producer outside the queue package code; R05.2 paths from the CAS-won edge in the wake-up routine; R05.3 ordering inside every function that atomically stores the working flag; R05.4 exits of every wire handler that calls the consumer; R05.5 census of writers/callers.",
		Run:      runC05,
	})
}

type wakeRoles struct {
	markWorking, markNotWorking, wake []*ssa.Function
}

func (p *P) wakeRoles() wakeRoles {
	var w wakeRoles
	w.markWorking = p.functionsWhere(p.mAtomic("CAS", "*queue.workingFlag"))
	w.markNotWorking = p.functionsWhere(p.mAtomic("Store", "*queue.workingFlag"))
	for _, f := range p.fnList {
		for _, mw := range w.markWorking {
			if len(findInstrs(f, p.mCall(p.fname(mw)))) > 0 && !inFns(f, w.wake) {
				w.wake = append(w.wake, f)
			}
		}
	}
	return w
}

// mEmit: a polling event leaves this goroutine: direct event write, or a send on Session.sendCh
// (bare send or a select containing that send).
func (p *P) mEmit() M {
	isSendCh := func(ch ssa.Value) bool { return isLoadOf(ch, "Session.sendCh") }
	return M{ID: "emit", F: func(in ssa.Instruction) bool {
		switch x := in.(type) {
		case *ssa.Send:
			return isSendCh(x.Chan)
		case *ssa.Select:
			for _, st := range x.States {
				if st.Dir == 1 /* types.SendOnly */ && isSendCh(st.Chan) {
					return true
				}
			}
		case *ssa.Call:
			return p.calleeName(&x.Call) == "(*Session).writeEventData"
		}
		return false
	}}
}

func runC05(p *P, r *R) {
	w := p.wakeRoles()
	_, cons := p.queueRoles()
	r.role("markWorking (CAS flag 0->1)", p.names(w.markWorking))
	r.role("markNotWorking (atomic store to flag)", p.names(w.markNotWorking))
	r.role("wake-up routine", p.names(w.wake))
	r.count("R05.5", "markWorking functions", len(w.markWorking), 1)
	r.count("R05.5", "markNotWorking functions", len(w.markNotWorking), 1)
	r.count("R05.2", "wake-up routines", len(w.wake), 1)

	var wakeNames []string
	for _, f := range w.wake {
		wakeNames = append(wakeNames, p.fname(f))
	}
	mWake := p.mCall(wakeNames...)

	// R05.1 (a wrapper that hands the enqueue's error back to its caller is an enqueue site of that caller)
	nPut := 0
	fam, wrappers := p.putFamily()
	r.role("enqueue wrappers", p.names(wrappers))
	mFam := p.mPutFamily()
	for _, f := range p.fnList {
		if inFns(f, fam) {
			continue
		}
		for _, ci := range findInstrs(f, mFam) {
			call, ok := ci.(*ssa.Call)
			if !ok {
				continue
			}
			nPut++
			fn := p.fname(f)
			res := p.mustPass(f, []Point{pointOf(call)},
				func(in ssa.Instruction) bool { return p.evMust(in, mWake, 1) },
				func(b *ssa.BasicBlock, i int) bool { return !edgeKnownNonNil(b, i, call) },
				func(ret *ssa.Return, pred *ssa.BasicBlock) bool { return !isErrorExit(ret) })
			r.ob("R05.1", fn+": a successful enqueue is followed by a wake-up attempt before any success exit", p.ipos(call), res.OK, true,
				"path from the enqueue to a non-error return without a call reaching the wake-up routine: %s", p.pathString(res))
		}
	}
	r.count("R05.1", "enqueue call sites outside the producer family", nPut, 2)

	// R05.2
	emit := p.mEmit()
	for _, f := range w.wake {
		fn := p.fname(f)
		n := 0
		for _, b := range f.Blocks {
			ifi := blockIf(b)
			if ifi == nil {
				continue
			}
			call, pol := condCall(ifi.Cond)
			if call == nil {
				continue
			}
			g := p.localCallee(call)
			if g == nil || !inFns(g, w.markWorking) {
				continue
			}
			n++
			win := 0
			if !pol {
				win = 1
			}
			start := Point{b.Succs[win], -1}
			res := p.mustPass(f, []Point{start}, emit.F, nil, nil)
			r.ob("R05.2", fn+": the goroutine that wins the working flag always emits a polling event", p.ipos(ifi), res.OK, true,
				"a CAS winner that returns without emitting leaves the flag set with nobody draining: %s", p.pathString(res))
			// the losing edge must not emit (duplicate wake-ups are harmless but the early return is the contract)
		}
		r.count("R05.2", "markWorking tests in "+fn, n, 1)
		// direct writes happen under the writing flag: C18 R18.1
	}

	// R05.3
	for _, f := range w.markNotWorking {
		fn := p.fname(f)
		var s0, s1 []ssa.Instruction
		for _, si := range findInstrs(f, p.mAtomic("Store", "*queue.workingFlag")) {
			c, _ := constInt(si.(*ssa.Call).Call.Args[1])
			if c == 0 {
				s0 = append(s0, si)
			} else {
				s1 = append(s1, si)
			}
		}
		r.count("R05.3", "flag clears in "+fn, len(s0), 1)
		isSizeRead := func(in ssa.Instruction) bool {
			if a := p.atomicOp(in); a != nil && a.Op == "Load" && (a.Word == "*queue.tail" || a.Word == "*queue.head") {
				return true
			}
			if c, ok := in.(*ssa.Call); ok {
				if g := p.localCallee(c); g != nil {
					return p.may(g, p.mAtomic("Load", "*queue.tail"), 2)
				}
			}
			return false
		}
		var reads []ssa.Instruction
		allInstrs(f, func(in ssa.Instruction) {
			if isSizeRead(in) {
				reads = append(reads, in)
			}
		})
		r.count("R05.3", "queue size reads in "+fn, len(reads), 1)
		for _, rd := range reads {
			ok := false
			for _, c := range s0 {
				if instrDominates(c, rd) {
					ok = true
				}
			}
			r.ob("R05.3", fn+": the flag is cleared before the queue size is re-checked", p.ipos(rd), ok, true,
				"check-then-clear loses an element enqueued between the check and the clear")
		}
		isSize := func(v ssa.Value) bool {
			in, ok := v.(ssa.Instruction)
			return ok && isSizeRead(in)
		}
		isZero := func(v ssa.Value) bool { c, ok := constInt(v); return ok && c == 0 }
		for _, ret := range returnsOf(f) {
			v := resultOf(ret, 0)
			bc, isConst := v.(*ssa.Const)
			if isConst && bc.Value != nil && bc.Value.String() == "true" {
				ok := false
				for _, fct := range factsAt(ret.Block()) {
					if rel := relOn(fct.Cond, fct.Truth, isSize, isZero); rel == "==" || rel == "<=" {
						ok = true
					}
				}
				r.ob("R05.3", fn+": reports idle only on the size()==0 edge after the clear", p.ipos(ret), ok, true, "")
				continue
			}
			// may return false: the flag must have been set back to 1 after the clear
			for _, c := range s0 {
				res := p.mustPass(f, []Point{pointOf(c)}, func(in ssa.Instruction) bool {
					for _, s := range s1 {
						if s == in {
							return true
						}
					}
					return false
				}, nil, func(r2 *ssa.Return, _ *ssa.BasicBlock) bool { return r2 == ret })
				r.ob("R05.3", fn+": when not idle the flag is set back before returning", p.ipos(ret), res.OK, true, "%s", p.pathString(res))
			}
		}
	}

	// R05.4 drain loop
	wh := p.wireHandlers()
	var mnwNames, consNames []string
	for _, f := range w.markNotWorking {
		mnwNames = append(mnwNames, p.fname(f))
	}
	for _, f := range cons {
		consNames = append(consNames, p.fname(f))
	}
	mIdle := p.mCall(mnwNames...)
	mPop := p.mCall(consNames...)
	nPoll := 0
	for _, f := range wh {
		if len(findInstrs(f, mPop)) == 0 {
			continue
		}
		nPoll++
		fn := p.fname(f)
		r.Scope[fn] = true
		for _, ret := range returnsOf(f) {
			if isErrorExit(ret) {
				continue
			}
			r.ob("R05.4", fn+": the drain loop ends normally only after the consumer went idle-and-empty", p.ipos(ret), p.guardedByCall(ret, mIdle, true), true,
				"a normal exit not dominated by markNotWorking()==true leaves the flag set (or elements undrained) with no wake-up coming")
		}
		isPopErr := func(v ssa.Value) bool {
			return derivedFrom(v, func(x ssa.Value) bool {
				e, ok := x.(*ssa.Extract)
				if !ok || e.Index != 1 {
					return false
				}
				c, ok := e.Tuple.(*ssa.Call)
				return ok && mPop.F(c)
			}, 3)
		}
		for _, ii := range findInstrs(f, mIdle) {
			ok := false
			for _, fct := range factsAt(ii.Block()) {
				if relOn(fct.Cond, fct.Truth, isPopErr, isNilConst) == "!=" {
					ok = true
				}
			}
			r.ob("R05.4", fn+": go-idle is attempted only after the consumer reported the queue empty", p.ipos(ii), ok, true, "")
		}
		r.count("R05.4", "go-idle calls in "+fn, len(findInstrs(f, mIdle)), 1)
	}
	r.count("R05.4", "polling handlers", nPoll, 1)

	// R05.5 census
	for _, f := range w.markWorking {
		for _, ci := range findInstrs(f, p.mAtomic("CAS", "*queue.workingFlag")) {
			cc := ci.(*ssa.Call).Call
			o, ok1 := constInt(cc.Args[1])
			n, ok2 := constInt(cc.Args[2])
			r.ob("R05.5", p.fname(f)+": working flag CAS is 0 -> 1", p.ipos(ci), ok1 && ok2 && o == 0 && n == 1, true, "")
		}
	}
	for _, f := range p.fnList {
		for _, mw := range w.markWorking {
			for _, ci := range findInstrs(f, p.mCall(p.fname(mw))) {
				r.ob("R05.5", p.fname(f)+": calls markWorking", p.ipos(ci), inFns(f, w.wake), true, "")
			}
		}
		for _, ci := range findInstrs(f, mIdle) {
			r.ob("R05.5", p.fname(f)+": calls markNotWorking", p.ipos(ci), inFns(f, wh), true, "only the consumer's drain loop may clear the flag")
		}
	}
	// R05.6 a polling event that arrives behind other events in one read is still handled: a handler tells the event loop
	// to stop parsing only when it consumed nothing (its event is incomplete) (shared with C13 R13.5)
	borrow(p, r, "C13", runC13, map[string]string{"R13.5": "R05.6"}, nil)
}
