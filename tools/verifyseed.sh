#!/bin/bash
# verifyseed.sh <seed-id>: confirms a seeded change in a scratch worktree of /repo (removed afterwards):
#  (1) demo passes on /repo HEAD, (2) demo fails with the patch, (3) existing suite passes with the patch (no demo), (4) builds.
id=$1; d=/verif/seeded/$id; wt=/var/tmp/vs-$id
export GOFLAGS=-mod=mod GOPROXY=off GOSUMDB=off GOTOOLCHAIN=local SHMIPC_LOG_LEVEL=5; unset GOWORK
git -C /repo worktree add -q --detach $wt HEAD || exit 2
trap "git -C /repo worktree remove --force $wt" EXIT
cd $wt
demo=$(ls $d/*_test.go | head -1); run=$(grep -ho 'func Test[A-Za-z0-9_]*' $demo | sed 's/func //' | paste -sd'|')
cp $demo $wt/
echo "== (1) demo on unmodified HEAD ($(git -C /repo rev-parse --short HEAD))"
go test -vet=off -count=1 -run "^($run)\$" -timeout 300s . 2>&1 | tail -3; r1=${PIPESTATUS[0]}
git apply $d/patch.diff || { echo "PATCH DOES NOT APPLY"; exit 2; }
echo "== (4) build"; go build ./... ; r4=$?
echo "== (2) demo with patch"
go test -vet=off -count=1 -run "^($run)\$" -timeout 300s . 2>&1 | grep -E "^(--- FAIL|FAIL|ok|panic:|fatal)" | head -8; r2=${PIPESTATUS[0]}
rm -f $wt/$(basename $demo)
echo "== (3) existing suite with patch"
# the suite uses fixed ports and /dev/shm paths: run it in private network+mount namespaces so that concurrent suites cannot interfere
unshare -n -m bash -c "ip link set lo up; mount -t tmpfs tmpfs /dev/shm; mount -t tmpfs tmpfs /tmp; cd $wt && go test -vet=off -count=1 -timeout 25m . 2>&1 | tail -3; exit \${PIPESTATUS[0]}"; r3=$?
echo "RESULT $id demo_on_head=$r1 demo_with_patch=$r2 suite_with_patch=$r3 build=$r4"
[ $r1 = 0 ] && [ $r2 != 0 ] && [ $r3 = 0 ] && [ $r4 = 0 ] && echo "CONFIRMED $id" || echo "NOT-CONFIRMED $id"
