#!/bin/bash
# verifyseed.sh <seed-id>: confirms a seeded change in a scratch worktree of /repo (removed afterwards):
#  (1) demo passes on /repo HEAD, (2) demo fails with the patch, (3) existing suite passes with the patch (no demo), (4) builds.
id=$1; d=/verif/seeded/$id; wt=/var/tmp/vs-$id
export GOFLAGS=-mod=mod GOPROXY=off GOSUMDB=off GOTOOLCHAIN=local SHMIPC_LOG_LEVEL=5; unset GOWORK
git -C /repo worktree add -q --detach $wt HEAD || exit 2
trap "git -C /repo worktree remove --force $wt" EXIT
cd $wt
demo=$(ls $d/*_test.go | head -1); run=$(grep -ho 'func Test[A-Za-z0-9_]*' $demo | sed 's/func //' | paste -sd'|')
cp $demo $wt/
echo "== (1) demo on unmodified HEAD ($(git -C /repo rev-parse --short HEAD))"
go test -vet=off -count=1 -run "^($run)\$" -timeout 300s . 2>&1 | tail -3; r1=${PIPESTATUS[0]}
git apply $d/patch.diff || { echo "PATCH DOES NOT APPLY"; exit 2; }
echo "== (4) build"; go build ./... ; r4=$?
echo "== (2) demo with patch"
go test -vet=off -count=1 -run "^($run)\$" -timeout 300s . 2>&1 | grep -E "^(--- FAIL|FAIL|ok|panic:|fatal)" | head -8; r2=${PIPESTATUS[0]}
rm -f $wt/$(basename $demo)
echo "== (3) existing suite with patch"
# the suite uses fixed ports, /dev/shm and /tmp paths: run it in private network+mount namespaces so that concurrent suites cannot
# interfere; TestBufferList_ConcurrentPutPop is flaky on the unmodified tree (the ABA known finding, DESIGN 0.3); the test helpers use a 1 s handshake timeout, which fires spuriously on a loaded machine: such a run is retried (max 4).
r3=1
for attempt in 1 2 3 4; do
  unshare -n -m bash -c "ip link set lo up; mount -t tmpfs tmpfs /dev/shm; mount -t tmpfs tmpfs /tmp; cd $wt && go test -vet=off -count=1 -timeout 25m . > /var/tmp/vs-suite-$id.log 2>&1; exit \$?"; r3=$?
  tail -n 3 /var/tmp/vs-suite-$id.log
  if [ $r3 = 0 ]; then break; fi
  if grep -qE "init timeout:1000 ms|address already in use|panic: test timed out|FAIL: TestBufferList_ConcurrentPutPop" /var/tmp/vs-suite-$id.log; then echo "  (attempt $attempt: environmental failure — handshake timeout under load / port clash / hang; retrying)"; else grep -E "^--- FAIL" /var/tmp/vs-suite-$id.log | head -5; break; fi
done
rm -f /var/tmp/vs-suite-$id.log
echo "RESULT $id demo_on_head=$r1 demo_with_patch=$r2 suite_with_patch=$r3 build=$r4"
[ $r1 = 0 ] && [ $r2 != 0 ] && [ $r3 = 0 ] && [ $r4 = 0 ] && echo "CONFIRMED $id" || echo "NOT-CONFIRMED $id"
