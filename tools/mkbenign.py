#!/usr/bin/env python3
"""mkbenign.py NAME FILE "desc"  (stdin: OLD\n=====\nNEW[\n#####\nOLD2\n=====\nNEW2 ...]) — behaviour-preserving variant under /verif/benign/."""
import sys, os, subprocess, tempfile, shutil
name, fname = sys.argv[1:3]
desc = sys.argv[3] if len(sys.argv) > 3 else ""
src = open(os.path.join("/repo", fname)).read()
new_src = src
for part in sys.stdin.read().split("\n#####\n"):
    old, new = part.split("\n=====\n")
    old = old.strip("\n"); new = new.rstrip("\n")
    if new.startswith("\n"): new = new[1:]
    if new_src.count(old) != 1:
        sys.exit("OLD matches %d times: %r" % (new_src.count(old), old[:60]))
    new_src = new_src.replace(old, new)
tmp = tempfile.mkdtemp(prefix="mkben_")
try:
    subprocess.check_call("cd /repo && git ls-files -z | xargs -0 cp --parents -t %s" % tmp, shell=True)
    open(os.path.join(tmp, fname), "w").write(new_src)
    env = dict(os.environ, GOFLAGS="-mod=mod", GOPROXY="off", GOSUMDB="off", GOTOOLCHAIN="local", GOWORK="off")
    r = subprocess.run(["go", "vet", "-tests=false", "."], cwd=tmp, env=env, capture_output=True, text=True)
    r = subprocess.run(["go", "build", "."], cwd=tmp, env=env, capture_output=True, text=True)
    if r.returncode != 0:
        sys.exit("variant does not build:\n" + r.stderr)
    d = subprocess.run(["diff", "-u", "--label", "a/" + fname, "--label", "b/" + fname, os.path.join("/repo", fname), os.path.join(tmp, fname)], capture_output=True, text=True).stdout
    with open("/verif/benign/%s.patch" % name, "w") as f:
        f.write("# benign: behaviour-preserving variant; every check must stay silent\n# what: %s\n" % desc)
        f.write(d)
    print("wrote /verif/benign/%s.patch" % name)
finally:
    shutil.rmtree(tmp, ignore_errors=True)
