#!/usr/bin/env python3
"""Writes /verif/seeded/<id>/meta.json from the table below + the verification log of tools/verifyseed.sh."""
import json, os, re, subprocess
SEEDS = {
 "C01-a": dict(property="C01", change="(*bufferSlice).reset no longer calls clearFlag(): a recycled slice keeps hasNext+next of its former chain",
   needs="a multi-slice chain whose first slice is recycled alone, a pusher stalled between its tail CAS and linkNext with completed pushes behind it, then a pop: head follows the stale link into a buffer that is still held",
   detected_by="C01 R01.5 '(*bufferSlice).reset: resetting a shared-memory slice clears its stale hasNext link' (rule added after this seed was missed)"),
 "C02-a": dict(property="C02", change="readBufferSlice: end-of-slot guard `bufEndOffset > len(mem)` became `>=`",
   needs="a region that exactly fits its buffers (no slack), the last slot allocated mid-chain and returned through recycleBuffers: the chain walk stops at the 'broken' last slot and loses it and the rest of the chain",
   detected_by="C02 R02.6 / C03 R03.6 guard-strictness table (rule added after this seed was missed)"),
 "C03-a": dict(property="C03", change="mappingBufferManager: total-length guard `len(mem) < header+length` became `<=`",
   needs="an exact-fit configuration (capacity == header + sum of list sizes): the creator accepts it, the peer refuses to map the same memory, on both back-ends",
   detected_by="C03 R03.6 guard-strictness table (rule added after this seed was missed)"),
 "C04-a": dict(property="C04", change="(*queue).put: q.Unlock() moved before atomic.AddInt64(q.tail, 1)",
   needs="two producers, the second locking between the first one's Unlock and its tail increment: both write the same slot, an element is lost and a stale one delivered, occupancy exceeds the capacity",
   detected_by="C04 R04.3 'tail is published inside the queue mutex'"),
 "C05-a": dict(property="C05", change="(*queue).markNotWorking checks size() first and clears the working flag afterwards",
   needs="a producer's put+markWorking landing between the consumer's size check and its store of 0: the CAS fails, no polling event is sent, the consumer goes idle with a non-empty queue",
   detected_by="C05 R05.3 'the flag is cleared before the queue size is re-checked'"),
 "C09-a": dict(property="C09", change="fillDataToReadBuffer reads the stream state before pendingData.add()",
   needs="a user Close() running to completion between the event loop's state read and its add: the frame is parked in a closed, unregistered stream and its slices stay allocated",
   detected_by="C09 R09.4 'the arrival is published before the stream state is read'"),
 "C13-a": dict(property="C13", change="handleStreamClose's completeness guard trusts the received length field: `len(buf) < int(hdr.Length())-headerSize`",
   needs="a StreamClose header with a length field below 12 and fewer than 4 body bytes buffered when the handler runs (depends on how the bytes were split): slice bounds panic in the epoll goroutine",
   detected_by="C13 R13.2 (unproven precondition of handleStreamClose at the table call / BigEndian access) and R13.3"),
 "C18-a": dict(property="C18", change="maybeExpandReadBuffer (both build variants): readStartOff reset to 0 before the pending window is copied",
   needs="the 64 KiB buffer filling exactly while the callback has partially consumed it (readStartOff > 0): committed bytes are delivered again",
   detected_by="C18 R18.4 'the window bound readStartOff is read before any reset of it'"),
 "C06-a": dict(property="C06", change="handleFallbackData hands the stream a sub-slice of the connection's reused read buffer instead of a copy (`data := buf[:payloadLen]`)",
   needs="several socket-fallback messages with a slow reader: any later socket event longer than 16 bytes overwrites payload that was not consumed yet (Len stays right, bytes are wrong)",
   detected_by="C06 R06.5 / C18 R18.6 event-buffer escape analysis (rule added after this seed was missed)"),
 "C07-a": dict(property="C07", change="Flush: the sticky latch became `s.inFallbackState = !s.sendBuf.isFromShareMemory()` (stream returns to the queue once shared memory is available again)",
   needs="shared-memory exhaustion followed by recovery while the receiver is already draining the queue: a later queue message is delivered before the earlier socket message",
   detected_by="C07 R07.2 (non-constant / clearing store to inFallbackState outside reset) and R07.3"),
 "C08-a": dict(property="C08", change="ReadBytes slow path recycles the exhausted front slice directly (`recycleBuffer(popFront())`) instead of readNextSlice()",
   needs="a zero-copy read inside slice A, then a ReadBytes straddling A->B, then enough unrelated allocations for the FIFO free list to come round to A before ReleasePreviousRead",
   detected_by="C08 R08.2 (reader-side recycle of a main-list slice without the pinned decision)"),
 "C10-a": dict(property="C10", change="exported Close(): the CAS opened->localClosing became an unconditional atomic store",
   needs="callback mode, the peer's close arriving while OnData runs (halfClosed, OnRemoteClose delivered), then a local Close() before OnData returns: state moves backwards, OnLocalClose fires on top of OnRemoteClose, a second close notification is sent",
   detected_by="C10 R10.1 (atomic Store on Stream.state)"),
 "C11-a": dict(property="C11", change="Session.Close no longer closes every stream's notify channel before close(shutdownCh) and the posted teardown",
   needs="a callback-mode stream whose OnData is blocked in a read when the session closes: Stream.Close returns early (callback in progress), the teardown waits on asyncGoroutineWg forever and stalls the process-wide dispatcher",
   detected_by="C11 R11.2"),
 "C12-a": dict(property="C12", change="V3 serverInit: the file-path case returns handleShareMemoryByFilePath's result directly and never sends typeAckShareMemory",
   needs="a protocol-3 client that shares memory by file path (the library's own client forces v2 for file mappings): server reports success, client times out",
   detected_by="C12 R12.5 handshake wait/send pairing (rule added after this seed was missed)"),
 "C14-a": dict(property="C14", change="same edit as C11-a: Session.Close's wake-all-streams pass removed",
   needs="peer death while a callback-mode stream's OnData is blocked mid-read: nothing wakes the read, the dispatcher goroutine blocks forever, mappings and fds are never released, other sessions stall",
   detected_by="C14 R14.6 (rule shared with C11 R11.2; added to C14 after this seed was missed by C14's own check)"),
 "C15-a": dict(property="C15", change="putOrCloseStream: a `case ErrStreamClosed:` arm that neither pools nor closes the stream",
   needs="the peer closing the stream while a caller holds it (halfClosed), then PutBack: the stream stays in the session table with its buffers",
   detected_by="C15 R15.2"),
 "C17-a": dict(property="C17", change="the rebuild-interval timer is created once before the retry loop and never reset",
   needs="the first rebuild attempt failing (server still unreachable): the goroutine blocks forever on the drained timer, the pool is never rebuilt",
   detected_by="C17 R17.1 / C11 R11.6 one-shot timer re-arm rule (added after this seed was missed)"),
 "C19-a": dict(property="C19", change="on the closeCh branch the accept loop closes the stream instead of the wrapped conn (the wait-group reference is never released)",
   needs="listener closed while a conn of the session is still open, then a further stream on the same session: the session never ends",
   detected_by="C19 R19.1"),
 "C20-a": dict(property="C20", change="callback goroutine re-arms with `if len(pending)==0 {break}; atomic.StoreUint32(&callbackInProcess, 1)` instead of the CAS",
   needs="a message arriving between the goroutine's last moveTo and its re-check: the event loop's CAS succeeds and starts a second goroutine while the first loops: two OnData run concurrently",
   detected_by="C20 R20.2"),
}
for sid, m in SEEDS.items():
    d = "/verif/seeded/" + sid
    if not os.path.isdir(d):
        continue
    log = "/tmp/vs-%s.log" % sid
    ran = {"tool": "/verif/tools/verifyseed.sh %s  (scratch worktree of /repo HEAD under /tmp, removed afterwards; suite run in private network+mount namespaces)" % sid}
    if os.path.exists(log):
        t = open(log).read()
        mm = re.search(r"RESULT \S+ demo_on_head=(\d+) demo_with_patch=(\d+) suite_with_patch=(\d+) build=(\d+)", t)
        if mm:
            ran.update(demo_on_unmodified_head="pass" if mm.group(1) == "0" else "FAIL", demo_with_patch="fails (as required)" if mm.group(2) != "0" else "PASSES",
                       existing_suite_with_patch="pass" if mm.group(3) == "0" else "FAIL", build="ok" if mm.group(4) == "0" else "FAIL",
                       confirmed=("CONFIRMED " + sid) in t)
        hd = re.search(r"unmodified HEAD \((\w+)\)", t)
        if hd: ran["repo_head"] = hd.group(1)
    meta = {"seed": sid, "property": m["property"], "written_by": "independent sub-agent that saw only the property text and a scratch worktree",
            "change": m["change"], "needs_to_manifest": m["needs"], "what_was_run": ran, "reported_by": m["detected_by"],
            "files": sorted(os.listdir(d))}
    json.dump(meta, open(d + "/meta.json", "w"), indent=1)
    print(sid, ran.get("confirmed"))
