#!/usr/bin/env python3
"""Writes /verif/seeded/<id>/meta.json from the table below + the verification log of tools/verifyseed.sh."""
import json, os, re, subprocess
SEEDS = {
 "C01-a": dict(property="C01", change="(*bufferSlice).reset no longer calls clearFlag(): a recycled slice keeps hasNext+next of its former chain",
   needs="a multi-slice chain whose first slice is recycled alone, a pusher stalled between its tail CAS and linkNext with completed pushes behind it, then a pop: head follows the stale link into a buffer that is still held",
   detected_by="C01 R01.5 '(*bufferSlice).reset: resetting a shared-memory slice clears its stale hasNext link' (rule added after this seed was missed)"),
 "C02-a": dict(property="C02", change="readBufferSlice: end-of-slot guard `bufEndOffset > len(mem)` became `>=`",
   needs="a region that exactly fits its buffers (no slack), the last slot allocated mid-chain and returned through recycleBuffers: the chain walk stops at the 'broken' last slot and loses it and the rest of the chain",
   detected_by="C02 R02.6 / C03 R03.6 guard-strictness table (rule added after this seed was missed)"),
 "C03-a": dict(property="C03", change="mappingBufferManager: total-length guard `len(mem) < header+length` became `<=`",
   needs="an exact-fit configuration (capacity == header + sum of list sizes): the creator accepts it, the peer refuses to map the same memory, on both back-ends",
   detected_by="C03 R03.6 guard-strictness table (rule added after this seed was missed)"),
 "C04-a": dict(property="C04", change="(*queue).put: q.Unlock() moved before atomic.AddInt64(q.tail, 1)",
   needs="two producers, the second locking between the first one's Unlock and its tail increment: both write the same slot, an element is lost and a stale one delivered, occupancy exceeds the capacity",
   detected_by="C04 R04.3 'tail is published inside the queue mutex'"),
 "C05-a": dict(property="C05", change="(*queue).markNotWorking checks size() first and clears the working flag afterwards",
   needs="a producer's put+markWorking landing between the consumer's size check and its store of 0: the CAS fails, no polling event is sent, the consumer goes idle with a non-empty queue",
   detected_by="C05 R05.3 'the flag is cleared before the queue size is re-checked'"),
 "C09-a": dict(property="C09", change="fillDataToReadBuffer reads the stream state before pendingData.add()",
   needs="a user Close() running to completion between the event loop's state read and its add: the frame is parked in a closed, unregistered stream and its slices stay allocated",
   detected_by="C09 R09.4 'the arrival is published before the stream state is read'"),
 "C13-a": dict(property="C13", change="handleStreamClose's completeness guard trusts the received length field: `len(buf) < int(hdr.Length())-headerSize`",
   needs="a StreamClose header with a length field below 12 and fewer than 4 body bytes buffered when the handler runs (depends on how the bytes were split): slice bounds panic in the epoll goroutine",
   detected_by="C13 R13.2 (unproven precondition of handleStreamClose at the table call / BigEndian access) and R13.3"),
 "C18-a": dict(property="C18", change="maybeExpandReadBuffer (both build variants): readStartOff reset to 0 before the pending window is copied",
   needs="the 64 KiB buffer filling exactly while the callback has partially consumed it (readStartOff > 0): committed bytes are delivered again",
   detected_by="C18 R18.4 'the window bound readStartOff is read before any reset of it'"),
}
for sid, m in SEEDS.items():
    d = "/verif/seeded/" + sid
    if not os.path.isdir(d):
        continue
    log = "/tmp/vs-%s.log" % sid
    ran = {"tool": "/verif/tools/verifyseed.sh %s  (scratch worktree of /repo HEAD under /tmp, removed afterwards; suite run in private network+mount namespaces)" % sid}
    if os.path.exists(log):
        t = open(log).read()
        mm = re.search(r"RESULT \S+ demo_on_head=(\d+) demo_with_patch=(\d+) suite_with_patch=(\d+) build=(\d+)", t)
        if mm:
            ran.update(demo_on_unmodified_head="pass" if mm.group(1) == "0" else "FAIL", demo_with_patch="fails (as required)" if mm.group(2) != "0" else "PASSES",
                       existing_suite_with_patch="pass" if mm.group(3) == "0" else "FAIL", build="ok" if mm.group(4) == "0" else "FAIL",
                       confirmed=("CONFIRMED " + sid) in t)
        hd = re.search(r"unmodified HEAD \((\w+)\)", t)
        if hd: ran["repo_head"] = hd.group(1)
    meta = {"seed": sid, "property": m["property"], "written_by": "independent sub-agent that saw only the property text and a scratch worktree",
            "change": m["change"], "needs_to_manifest": m["needs"], "what_was_run": ran, "reported_by": m["detected_by"],
            "files": sorted(os.listdir(d))}
    json.dump(meta, open(d + "/meta.json", "w"), indent=1)
    print(sid, ran.get("confirmed"))
