#!/usr/bin/env python3
"""runbenign.py [NAME...] — applies each behaviour-preserving variant to a scratch copy of /repo and runs ALL claimed quick
checks on it; every check must exit 0 (no alarm on code where the properties hold)."""
import sys, os, subprocess, tempfile, shutil, glob, json
from concurrent.futures import ThreadPoolExecutor
props = [c["property_id"] for c in json.load(open("/verif/MANIFEST.json"))["checks"]]
def run(patch):
    name = os.path.basename(patch)[:-6]
    tmp = tempfile.mkdtemp(prefix="runben_")
    try:
        subprocess.check_call("cd /repo && git ls-files -z | grep -zv _test.go$ | xargs -0 cp --parents -t %s" % tmp, shell=True)
        r = subprocess.run(["patch", "-p1", "-s", "-i", patch], cwd=tmp, capture_output=True, text=True)
        if r.returncode != 0:
            return (name, "SKIP(patch does not apply)", "")
        alarms = []; out = ""
        for pr in props:
            r = subprocess.run(["/verif/bin/shmlint", "-prop", pr, "-repo", tmp, "-no-evidence"], capture_output=True, text=True)
            if r.returncode != 0:
                alarms.append(pr); out += r.stdout
        return (name, "SILENT" if not alarms else "FALSE-ALARM in " + ",".join(alarms), out)
    finally:
        shutil.rmtree(tmp, ignore_errors=True)
args = sys.argv[1:]
patches = sorted(glob.glob("/verif/benign/*.patch")) if not args else ["/verif/benign/%s.patch" % a for a in args]
with ThreadPoolExecutor(4) as ex:
    for name, verdict, out in ex.map(run, patches):
        print("%-45s %s" % (name, verdict))
        if verdict != "SILENT":
            print("\n".join("      " + l for l in out.splitlines() if l.startswith("  ") or "ERROR" in l)[:2500])
