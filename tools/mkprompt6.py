#!/usr/bin/env python3
"""mkprompt4.py Cxx : fourth-round seed prompt (lists the three earlier changes from seeded/*/meta.json) + worktree /var/tmp/wt4-Cxx."""
import sys, re, json, subprocess
pid = sys.argv[1]
prev = []
for suf in "abcde":
    try:
        prev.append(json.load(open("/verif/seeded/%s-%s/meta.json" % (pid, suf)))["change"])
    except Exception:
        pass
hint = ("Several such changes exist already: " + "; ".join("(%d) %s" % (i + 1, c) for i, c in enumerate(prev)) +
        ". Use a different mechanism AND, if you can, a different kind of trigger than those: e.g. a fault or crash at a particular point (peer dies, syscall fails, "
        "memory/queue exhausted), an unusual but legal configuration or input size, a rarely used API entry point or mode (callbacks, memfd vs file mapping, "
        "protocol v2 vs v3, TCP vs unix transport, hot restart), or two cooperating sites that each look fine alone.")
tmpl = open("/verif/tools/seedprompts/%s-b.txt" % pid).read()
wt = "/var/tmp/wt6-" + pid
tmpl = re.sub(r"/var/tmp/wt2-" + pid, wt, tmpl)
tmpl = re.sub(r"Somebody else has already produced one such change for this property\..*\n", hint + "\n", tmpl)
tmpl += "\nNever use `pkill`/`killall`, and never move/write anything onto device files such as /dev/null (other people's processes run in the same sandbox); kill only PIDs you started.\n"
open("/verif/tools/seedprompts/%s-f.txt" % pid, "w").write(tmpl)
subprocess.run(["git", "-C", "/repo", "worktree", "add", "-q", "--detach", wt, "HEAD"], check=True)
open(wt + "/_TASK.txt", "w").write(tmpl)
print(wt)
