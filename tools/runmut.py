#!/usr/bin/env python3
"""runmut.py [PROP[/NAME]]...  — applies each mutant patch to a scratch copy of /repo's working tree (outside /repo and
/verif, removed afterwards), runs the property's quick check on it and reports whether the expected rule fired."""
import sys, os, subprocess, tempfile, shutil, glob, re
from concurrent.futures import ThreadPoolExecutor
def run(patch):
    prop = os.path.basename(os.path.dirname(patch)); name = os.path.basename(patch)[:-6]
    hdr = open(patch).read()
    expect = re.search(r"^# expect: (.*)$", hdr, re.M).group(1).strip()
    props = re.search(r"^# property: (.*)$", hdr, re.M).group(1).split(",")
    tmp = tempfile.mkdtemp(prefix="runmut_")
    try:
        subprocess.check_call("cd /repo && git ls-files -z | grep -zv _test.go$ | xargs -0 cp --parents -t %s" % tmp, shell=True)
        r = subprocess.run(["patch", "-p1", "-s", "-i", patch], cwd=tmp, capture_output=True, text=True)
        if r.returncode != 0:
            return (prop, name, "SKIP(patch does not apply)", "")
        out = ""
        verdicts = []
        for pr in props:
            r = subprocess.run(["/verif/bin/shmlint", "-prop", pr.strip(), "-repo", tmp, "-no-evidence"], capture_output=True, text=True)
            out += r.stdout
            verdicts.append(r.returncode)
        fired = [e for e in expect.split(",") if re.search(r"^\s+" + re.escape(e.strip()) + r"\b", out, re.M)]
        if any(v == 2 for v in verdicts):
            return (prop, name, "ERROR(checker error)", out)
        if any(v == 1 for v in verdicts) and fired:
            return (prop, name, "KILLED by " + ",".join(fired), out)
        if any(v == 1 for v in verdicts):
            return (prop, name, "KILLED-OTHER (expected %s)" % expect, out)
        return (prop, name, "SURVIVED (expected %s)" % expect, out)
    finally:
        shutil.rmtree(tmp, ignore_errors=True)
args = sys.argv[1:] or ["*"]
verbose = "-v" in args
args = [a for a in args if a != "-v"]
patches = []
for a in args:
    if "/" in a: patches += glob.glob("/verif/mutants/%s.patch" % a)
    else: patches += glob.glob("/verif/mutants/%s/*.patch" % a)
patches.sort()
with ThreadPoolExecutor(6) as ex:
    for prop, name, verdict, out in ex.map(run, patches):
        print("%-4s %-40s %s" % (prop, name, verdict))
        if verbose or not verdict.startswith("KILLED by"):
            print("\n".join("      " + l for l in out.splitlines() if l.startswith("  ") or "VIOLATION" in l or "ERROR" in l)[:3000])
