#!/usr/bin/env python3
"""Regenerates /verif/MANIFEST.json from the table below (claimed properties) — everything not in the
table is listed under not_applicable with its reason."""
import json, os, sys

ENV = "GOFLAGS=-mod=mod GOPROXY=off GOSUMDB=off GOTOOLCHAIN=local GOWORK=off"
NOTE = ("Trusted base: go/types + go/ssa (x/tools v0.29.0) + VTA/CHA call graph over /repo's working tree, and the frozen, "
        "hand-confirmed instance tables inside the checker (roles are discovered by effect on the anchored state; a few anchors are function names "
        "and fail closed when they no longer resolve). Ordering rules are about program order in one goroutine; no memory-model or cross-process reasoning. "
        "A behaviour-preserving rewrite that moves the mechanism out of the recognised idioms is reported as undischarged (fails closed), not silently passed.")

# id -> (level text, technique, design ref)
CLAIMS = {
 "C01": ("Structural necessary conditions of exclusive ownership are decided on every path (atomic-only mutation of head/tail/size by popper/pusher roles, CAS-win hand-out built from the expected-old value, successor under hasNext guard, reservation before take, header cleared before escape, reset-swing-link order in the pusher, header-write provenance, payload window). The headline behaviour - no double ownership under every interleaving - is NOT decided; static analysis cannot bound schedules.",
         "who-may-write census over SSA access paths + dominance/value-identity rules on the CAS loops (go/ssa)", "DESIGN.md 4 C01 (plan), 0.3-0.4 (rules added since); RULES.md C01 (rule catalogue as implemented)"),
 "C02": ("Decides, on every CFG path, the counter compensation of the popper's failure exits, single counting after linking in the pusher, read-link-before-recycle in chain walkers, at-most-one push per recycle, and the class-selection agreement (distinct sizes enforced before creation). Chain/counter agreement at quiescence under all interleavings is NOT decided.",
         "must-pass-through and reachability queries over the SSA CFG; sibling-agreement rule between recycler and config validation", "DESIGN.md 4 C02 (plan), 0.3-0.4 (rules added since); RULES.md C02 (rule catalogue as implemented)"),
 "C03": ("Decides writer/reader agreement of all five binary layouts by extracting (kind, offset, width, bound field, carried value) tables from the unsafe casts of creator, mapper and accessors and comparing them with each other and with the package's layout constants; plus size/stride formula shapes, queue half cross-wiring on both back-ends, presence of length guards and sort-before-create. In-bounds/disjointness for every configuration value (uint32 wrap-around) is NOT decided.",
         "table extraction from unsafe casts in SSA + creator/mapper/accessor agreement check", "DESIGN.md 4 C03 (plan), 0.3-0.4 (rules added since); RULES.md C03 (rule catalogue as implemented)"),
 "C04": ("Decides the publication discipline of the queue on every path: write-slot-then-publish, read-slot-then-release, index identity with the checked cursor, producer wholly inside the mutex and released on every exit, full/empty checks on the right edges, single writer role per cursor and single consumer call site. Exactly-once/order under all interleavings and wrap-around values are NOT decided.",
         "dominance + must-held lock-region dataflow + access-path census (go/ssa)", "DESIGN.md 4 C04 (plan), 0.3-0.4 (rules added since); RULES.md C04 (rule catalogue as implemented)"),
 "C05": ("Decides the shape of the wake-up hand-shake on every path: enqueue => wake attempt before any success exit, CAS winner always emits, clear -> re-check -> re-set order of go-idle, drain loop exits only idle-and-empty, census of flag writers. The temporal claim (no stranded element under every interleaving) is NOT decided.",
         "edge-sensitive must-pass-through over the SSA CFG + ordering (dominance) rules", "DESIGN.md 4 C05 (plan), 0.3-0.4 (rules added since); RULES.md C05 (rule catalogue as implemented)"),
 "C08": ("Decides the ownership discipline behind zero-copy reads on every path: pin before an aliasing return, recycle a consumed front slice only on the not-pinned edge (park it otherwise), pinned mark cleared only after that decision, pinned slices released only by ReleasePreviousRead / ReleaseReadAndReuse / buffer recycle on close and completely, reuse-reset only after the release. That the bytes stay bit-identical additionally depends on C01 and is NOT decided.",
         "value-flow (alias) classification of returns + dominance / edge-placement rules + who-may-call census (go/ssa)", "DESIGN.md 4 C08 (plan), 0.3-0.4 (rules added since); RULES.md C08 (rule catalogue as implemented)"),
 "C09": ("Decides that no exit drops a shared-memory chain: path-sensitive must-pass-through over Flush (recycle | fallback copy+recycle | successful hand-over), per-element disposal in the poller, container coverage of stream close (every *sliceList field that receives slices, pending arrivals), add-before-state-read for late data, per-slice disposal in the receive-side re-linker and in pendingData.clear, unused-tail return in done(), census of main-list pops. Quiescence accounting under concurrent schedules is NOT decided.",
         "path-sensitive must-pass-through (branch-outcome consistent DFS over the SSA CFG) + container coverage", "DESIGN.md 4 C09 (plan), 0.3-0.4 (rules added since); RULES.md C09 (rule catalogue as implemented)"),
 "C10": ("Decides the stream state machine structurally: census of every write of Stream.state with constant-resolved (old,new) pairs against the forward-only relation, transition ownership by call-graph role, value-directed path search through the close routine for every state a local close can start from (notify channel, one callback, peer notification), callbacks only behind a won CAS, table removal under the lock, refusal guards of Flush/reset. Orderings of two-sided close are NOT decided.",
         "state-transition extraction (CAS operands) + role reachability + value-directed path search (go/ssa)", "DESIGN.md 4 C10 (plan), 0.3-0.4 (rules added since); RULES.md C10 (rule catalogue as implemented)"),
 "C13": ("Decides that no panic site in wire-handling code is reachable with unchecked wire-derived operands: every bound of every make/slice/index/BigEndian access in the wire scope is proved from dominating length checks by a small linear-fact engine with inferred callee preconditions and an inductive invariant for the event loop (handlers' consumed-bytes postcondition); plus dispatch guards, message-type matrix, handshake handler guards, nil-checks of optional Session pointers, restartability of handlers and error containment. An unprovable site fails closed (UNPROVEN). Non-wire panics (OOM) and semantic equality of chunked delivery are NOT decided.",
         "abstract interpretation over SSA (linear terms over wire atoms, facts from branch edges, no solver) + dominance rules", "DESIGN.md 4 C13 (plan), 0.3-0.4 (rules added since); RULES.md C13 (rule catalogue as implemented)"),
 "C15": ("Decides the pool's ownership discipline on every path (pop => return-or-close, put => keep-or-close), hand-out and reuse guards (open, live session, no unread/pending bytes, state cleared), and that ring state is only touched under the pool mutex with exactly one cursor advance per successful pop/push. Histories with concurrent peer closes / session loss are NOT decided.",
         "path-sensitive must-pass-through + must-held lock-region dataflow (go/ssa)", "DESIGN.md 4 C15 (plan), 0.3-0.4 (rules added since); RULES.md C15 (rule catalogue as implemented)"),
 "C18": ("Decides the structure behind exactly-once/in-order event bytes: writes only under the Session.writing CAS flag (must-held dataflow, released on all exits, send loop woken), shape of the partial-write loop (cursor advanced by exactly the syscall result, never on EAGAIN), consistent use of the receive window [readStartOff:readEndOff] in callback, grow and commit, and AST-equality of the build-variant files (race/non-race dispatcher, amd64/arm64 epoll) modulo an allow-list. Kernel-IO behaviours and exactly-once as such are NOT decided.",
         "CAS-flag region dataflow + accumulator-phi shape rules + access census of the receive window + AST equality of variant files", "DESIGN.md 4 C18 (plan), 0.3-0.4 (rules added since); RULES.md C18 (rule catalogue as implemented)"),
 "C19": ("Decides the adapter's structural obligations: wrapped stream delivered-or-closed on every path, wait-group Add/Done pairing (each Done classified as CAS-once, membership+delete under the mutex, or drain+reset under the mutex), delegation identity of Read/Write/deadlines down to the copy paths, close/shutdown arms of Accept. Socket semantics over histories are NOT decided.",
         "path search from select sites + classification census of WaitGroup operations + delegation identity (go/ssa)", "DESIGN.md 4 C19 (plan), 0.3-0.4 (rules added since); RULES.md C19 (rule catalogue as implemented)"),
 "C06": ("A deliberately narrow claim: byte equality of the pipe over all size sequences is a value property and is NOT decided. Decided on every path: the size>=1 guard of every sized reader entry point before the front slice is touched, Peek's purity (no cursor advance/unlink/length change in its transitive body; bufferSlice.peek restores the cursor), exactly-one length adjustment per successful return of each consuming/producing entry point, and the census of cursor/length writers.",
         "sibling-guard dominance + effect census over a transitive body + per-return must-pass-through (go/ssa)", "DESIGN.md 4 C06 (plan), 0.3-0.4 (rules added since); RULES.md C06 (rule catalogue as implemented)"),
 "C07": ("Decides the structural conditions of stream isolation and single-channel ordering: id identity at every send site and lookup-key identity on the receive side (under the lock), sticky fallback mark (census of its writers), transport chosen after the mark is updated, close notification on the channel the data uses, status operands. Order across the two channels under all schedules is NOT decided.",
         "value-identity rules on SSA operands + who-may-write census + edge-placement (dominance) rules", "DESIGN.md 4 C07 (plan), 0.3-0.4 (rules added since); RULES.md C07 (rule catalogue as implemented)"),
 "C11": ("Decides that every blocking primitive of the package (census of all selects, bare sends/receives, WaitGroup.Wait, sleeps) has an escape that a teardown role triggers or is a listed exception with a re-verified side-condition; Session.Close wakes every stream and closes shutdownCh before posting the teardown; every departure from opened closes the notify channel; readMore re-checks after every wake-up and arms/stops its deadline timer; Flush's retry loop is constant-bounded. All timing claims are NOT decided.",
         "exhaustive census of blocking instructions with classification table + ordering/must-pass-through rules (go/ssa)", "DESIGN.md 4 C11 (plan), 0.3-0.4 (rules added since); RULES.md C11 (rule catalogue as implemented)"),
 "C12": ("Decides min-shaped version agreement on both ends, release of every acquired resource on the peer-caused error exits of session establishment (descriptor, mappings, references, received fds), the timeout arm + buffered result channel of the handshake race, and value-flow identity of announced vs mapped paths and descriptors (wire order agreement sender/receiver). Same-memory identity and the version/back-end outcome matrix are NOT decided; local syscall-failure exits are outside the quantifier.",
         "path-sensitive must-pass-through from acquisition success edges to error exits + shape/identity rules (go/ssa)", "DESIGN.md 4 C12 (plan), 0.3-0.4 (rules added since); RULES.md C12 (rule catalogue as implemented)"),
 "C14": ("Decides the teardown discipline: idempotent Close (every effect behind the CAS-success edge), once-guarded channel closes, reachability of Session.Close from every connection failure signal, completeness of the posted teardown closure and of the unmap routines for every mapping type, nil-table guard of stream insertion, registry insert/delete pairing. Crash points and unmap-vs-in-flight races are NOT decided.",
         "dominance census of effects + call-chain reachability (VTA) + value-directed path search per mapping type (go/ssa)", "DESIGN.md 4 C14 (plan), 0.3-0.4 (rules added since); RULES.md C14 (rule catalogue as implemented)"),
 "C16": ("Decides that neither hot-restart state machine can stay in hotRestartState without a time-out: entering the state arms the checker or undoes itself on every path (one exception with re-verified infeasibility side-conditions), the checkers leave the state on every exit with an armed timer, state changes are behind epoch tests, acks only on the all-swapped edge. Completion, usability and bounded time are NOT decided.",
         "must-pass-through from state-entry stores + per-exit rules of the checker role + epoch-guard dominance (go/ssa)", "DESIGN.md 4 C16 (plan), 0.3-0.4 (rules added since); RULES.md C16 (rule catalogue as implemented)"),
 "C17": ("Decides the shape of the healing loop: pool closed on loss, failed reconnect => another attempt (exits only success / epoch change / cancellation), reconnect on the epoch-unchanged edge under the manager lock, rebuilt session installed, cancellation arms on every wait and cancel-before-wait in Close, no blocking operation on the failing GetStream path. Timing and repeated-loss interplay are NOT decided.",
         "path search from the reconnect's failure edge + dominance/lock-region rules (go/ssa)", "DESIGN.md 4 C17 (plan), 0.3-0.4 (rules added since); RULES.md C17 (rule catalogue as implemented)"),
 "C20": ("Decides the shape of the callback hand-off: publish-then-take in the event loop, spawn only as CAS winner after wait-group registration, clear -> re-check -> re-take in the goroutine (OnData again only behind a won re-take), OnData guards (open, bytes buffered, pending moved), exactly-one Done on every exit before the deferred close, deferred-close side-conditions. Eventual delivery and byte order are NOT decided.",
         "ordering (dominance) and edge-restricted reachability rules inside the spawned closure (go/ssa)", "DESIGN.md 4 C20 (plan), 0.3-0.4 (rules added since); RULES.md C20 (rule catalogue as implemented)"),
}

NA_DEFAULT = "checker for this property not built yet (implementation in progress); see DESIGN.md"
NA = {}

def main():
    props = [json.loads(l) for l in open("/verif/properties.jsonl")]
    checks, na = [], []
    for p in props:
        pid = p["id"]
        if pid in CLAIMS:
            text, tech, ref = CLAIMS[pid]
            checks.append({
                "property_id": pid,
                "quick_cmd": "/verif/bin/shmlint -prop %s -tier quick" % pid,
                "thorough_cmd": "/verif/bin/shmlint -prop %s -tier thorough" % pid,
                "evidence_file": "/verif/evidence/%s.json" % pid,
                "replay_cmd_template": "/verif/bin/shmlint -replay {path}",
                "engine": "shmlint",
                "level_claimed": {"category": "other", "text": text, "design_ref": ref},
                "level_note": NOTE,
                "technique": "static analysis: " + tech,
            })
        else:
            na.append({"property_id": pid, "reason": NA.get(pid, NA_DEFAULT)})
    m = {
        "version": 1,
        "setup_cmd": "cd /verif/checker && env %s go build -o /verif/bin/shmlint . && cd /repo && env %s go list -export -deps . >/dev/null" % (ENV, ENV),
        "hooks": {"guard": "verif", "enable": "none needed: the checks read /repo's source (default, -tags race and GOARCH=arm64 configurations); no hook is compiled into the library",
                  "baseline_off_cmd": "cd /repo && go test -vet=off -count=1 -timeout 25m ./...", "source_commits": [], "add_only": True},
        "engines": [{"name": "shmlint", "path": "/verif/checker", "serves_properties": sorted(CLAIMS),
                     "kind_free_text": "repository-specific static analyser (go/packages + go/types + go/ssa + VTA call graph): role discovery, who-may-write census, dominance/must-pass-through/lock-region rules, layout table extraction, wire-bounds abstract interpretation; thorough tier adds -tags race and GOARCH=arm64 configurations and a mutation self-test"}],
        "checks": checks,
        "notes": "Technique family: static analysis only. Every claim is level 'other': structural necessary conditions decided on all paths; the behavioural headline of each property that quantifies over schedules/values is stated as not decided in level_claimed.text and DESIGN.md. Known genuine defects that are not repaired are listed in /verif/known-findings.txt and printed as KNOWN-FINDING lines.",
        "not_applicable": na,
    }
    json.dump(m, open("/verif/MANIFEST.json", "w"), indent=1)
    print("claimed:", len(checks), "not applicable:", len(na))

main()
