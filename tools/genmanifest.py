#!/usr/bin/env python3
"""Regenerates /verif/MANIFEST.json from the table below (claimed properties) — everything not in the
table is listed under not_applicable with its reason."""
import json, os, sys

ENV = "GOFLAGS=-mod=mod GOPROXY=off GOSUMDB=off GOTOOLCHAIN=local GOWORK=off"
NOTE = ("Trusted base: go/types + go/ssa (x/tools v0.29.0) + VTA/CHA call graph over /repo's working tree, and the frozen, "
        "hand-confirmed instance tables inside the checker (roles are discovered by effect on the anchored state; a few anchors are function names "
        "and fail closed when they no longer resolve). Ordering rules are about program order in one goroutine; no memory-model or cross-process reasoning. "
        "A behaviour-preserving rewrite that moves the mechanism out of the recognised idioms is reported as undischarged (fails closed), not silently passed.")

# id -> (level text, technique, design ref)
CLAIMS = {
 "C01": ("Structural necessary conditions of exclusive ownership are decided on every path (atomic-only mutation of head/tail/size by popper/pusher roles, CAS-win hand-out built from the expected-old value, successor under hasNext guard, reservation before take, header cleared before escape, reset-swing-link order in the pusher, header-write provenance, payload window). The headline behaviour - no double ownership under every interleaving - is NOT decided; static analysis cannot bound schedules.",
         "who-may-write census over SSA access paths + dominance/value-identity rules on the CAS loops (go/ssa)", "DESIGN.md 4 C01"),
 "C02": ("Decides, on every CFG path, the counter compensation of the popper's failure exits, single counting after linking in the pusher, read-link-before-recycle in chain walkers, at-most-one push per recycle, and the class-selection agreement (distinct sizes enforced before creation). Chain/counter agreement at quiescence under all interleavings is NOT decided.",
         "must-pass-through and reachability queries over the SSA CFG; sibling-agreement rule between recycler and config validation", "DESIGN.md 4 C02"),
 "C03": ("Decides writer/reader agreement of all five binary layouts by extracting (kind, offset, width, bound field, carried value) tables from the unsafe casts of creator, mapper and accessors and comparing them with each other and with the package's layout constants; plus size/stride formula shapes, queue half cross-wiring on both back-ends, presence of length guards and sort-before-create. In-bounds/disjointness for every configuration value (uint32 wrap-around) is NOT decided.",
         "table extraction from unsafe casts in SSA + creator/mapper/accessor agreement check", "DESIGN.md 4 C03"),
 "C04": ("Decides the publication discipline of the queue on every path: write-slot-then-publish, read-slot-then-release, index identity with the checked cursor, producer wholly inside the mutex and released on every exit, full/empty checks on the right edges, single writer role per cursor and single consumer call site. Exactly-once/order under all interleavings and wrap-around values are NOT decided.",
         "dominance + must-held lock-region dataflow + access-path census (go/ssa)", "DESIGN.md 4 C04"),
 "C05": ("Decides the shape of the wake-up hand-shake on every path: enqueue => wake attempt before any success exit, CAS winner always emits, clear -> re-check -> re-set order of go-idle, drain loop exits only idle-and-empty, census of flag writers. The temporal claim (no stranded element under every interleaving) is NOT decided.",
         "edge-sensitive must-pass-through over the SSA CFG + ordering (dominance) rules", "DESIGN.md 4 C05"),
 "C08": ("Decides the ownership discipline behind zero-copy reads on every path: pin before an aliasing return, recycle a consumed front slice only on the not-pinned edge (park it otherwise), pinned mark cleared only after that decision, pinned slices released only by ReleasePreviousRead / ReleaseReadAndReuse / buffer recycle on close and completely, reuse-reset only after the release. That the bytes stay bit-identical additionally depends on C01 and is NOT decided.",
         "value-flow (alias) classification of returns + dominance / edge-placement rules + who-may-call census (go/ssa)", "DESIGN.md 4 C08"),
 "C09": ("Decides that no exit drops a shared-memory chain: path-sensitive must-pass-through over Flush (recycle | fallback copy+recycle | successful hand-over), per-element disposal in the poller, container coverage of stream close (every *sliceList field that receives slices, pending arrivals), add-before-state-read for late data, per-slice disposal in the receive-side re-linker and in pendingData.clear, unused-tail return in done(), census of main-list pops. Quiescence accounting under concurrent schedules is NOT decided.",
         "path-sensitive must-pass-through (branch-outcome consistent DFS over the SSA CFG) + container coverage", "DESIGN.md 4 C09"),
 "C10": ("Decides the stream state machine structurally: census of every write of Stream.state with constant-resolved (old,new) pairs against the forward-only relation, transition ownership by call-graph role, value-directed path search through the close routine for every state a local close can start from (notify channel, one callback, peer notification), callbacks only behind a won CAS, table removal under the lock, refusal guards of Flush/reset. Orderings of two-sided close are NOT decided.",
         "state-transition extraction (CAS operands) + role reachability + value-directed path search (go/ssa)", "DESIGN.md 4 C10"),
 "C13": ("Decides that no panic site in wire-handling code is reachable with unchecked wire-derived operands: every bound of every make/slice/index/BigEndian access in the wire scope is proved from dominating length checks by a small linear-fact engine with inferred callee preconditions and an inductive invariant for the event loop (handlers' consumed-bytes postcondition); plus dispatch guards, message-type matrix, handshake handler guards, nil-checks of optional Session pointers, restartability of handlers and error containment. An unprovable site fails closed (UNPROVEN). Non-wire panics (OOM) and semantic equality of chunked delivery are NOT decided.",
         "abstract interpretation over SSA (linear terms over wire atoms, facts from branch edges, no solver) + dominance rules", "DESIGN.md 4 C13"),
 "C15": ("Decides the pool's ownership discipline on every path (pop => return-or-close, put => keep-or-close), hand-out and reuse guards (open, live session, no unread/pending bytes, state cleared), and that ring state is only touched under the pool mutex with exactly one cursor advance per successful pop/push. Histories with concurrent peer closes / session loss are NOT decided.",
         "path-sensitive must-pass-through + must-held lock-region dataflow (go/ssa)", "DESIGN.md 4 C15"),
 "C18": ("Decides the structure behind exactly-once/in-order event bytes: writes only under the Session.writing CAS flag (must-held dataflow, released on all exits, send loop woken), shape of the partial-write loop (cursor advanced by exactly the syscall result, never on EAGAIN), consistent use of the receive window [readStartOff:readEndOff] in callback, grow and commit, and AST-equality of the build-variant files (race/non-race dispatcher, amd64/arm64 epoll) modulo an allow-list. Kernel-IO behaviours and exactly-once as such are NOT decided.",
         "CAS-flag region dataflow + accumulator-phi shape rules + access census of the receive window + AST equality of variant files", "DESIGN.md 4 C18"),
 "C19": ("Decides the adapter's structural obligations: wrapped stream delivered-or-closed on every path, wait-group Add/Done pairing (each Done classified as CAS-once, membership+delete under the mutex, or drain+reset under the mutex), delegation identity of Read/Write/deadlines down to the copy paths, close/shutdown arms of Accept. Socket semantics over histories are NOT decided.",
         "path search from select sites + classification census of WaitGroup operations + delegation identity (go/ssa)", "DESIGN.md 4 C19"),
}

NA_DEFAULT = "checker for this property not built yet (implementation in progress); see DESIGN.md"
NA = {}

def main():
    props = [json.loads(l) for l in open("/verif/properties.jsonl")]
    checks, na = [], []
    for p in props:
        pid = p["id"]
        if pid in CLAIMS:
            text, tech, ref = CLAIMS[pid]
            checks.append({
                "property_id": pid,
                "quick_cmd": "/verif/bin/shmlint -prop %s -tier quick" % pid,
                "thorough_cmd": "/verif/bin/shmlint -prop %s -tier thorough" % pid,
                "evidence_file": "/verif/evidence/%s.json" % pid,
                "replay_cmd_template": "/verif/bin/shmlint -replay {path}",
                "engine": "shmlint",
                "level_claimed": {"category": "other", "text": text, "design_ref": ref},
                "level_note": NOTE,
                "technique": "static analysis: " + tech,
            })
        else:
            na.append({"property_id": pid, "reason": NA.get(pid, NA_DEFAULT)})
    m = {
        "version": 1,
        "setup_cmd": "cd /verif/checker && env %s go build -o /verif/bin/shmlint . && cd /repo && env %s go list -export -deps . >/dev/null" % (ENV, ENV),
        "hooks": {"guard": "verif", "enable": "none needed: the checks read /repo's source (default, -tags race and GOARCH=arm64 configurations); no hook is compiled into the library",
                  "baseline_off_cmd": "cd /repo && go test -vet=off -count=1 -timeout 25m ./...", "source_commits": [], "add_only": True},
        "engines": [{"name": "shmlint", "path": "/verif/checker", "serves_properties": sorted(CLAIMS),
                     "kind_free_text": "repository-specific static analyser (go/packages + go/types + go/ssa + VTA call graph): role discovery, who-may-write census, dominance/must-pass-through/lock-region rules, layout table extraction, wire-bounds abstract interpretation; thorough tier adds -tags race and GOARCH=arm64 configurations and a mutation self-test"}],
        "checks": checks,
        "notes": "Technique family: static analysis only. Every claim is level 'other': structural necessary conditions decided on all paths; the behavioural headline of each property that quantifies over schedules/values is stated as not decided in level_claimed.text and DESIGN.md. Known genuine defects that are not repaired are listed in /verif/known-findings.txt and printed as KNOWN-FINDING lines.",
        "not_applicable": na,
    }
    json.dump(m, open("/verif/MANIFEST.json", "w"), indent=1)
    print("claimed:", len(checks), "not applicable:", len(na))

main()
