#!/usr/bin/env python3
"""mkmut.py PROP NAME EXPECT_RULE FILE  (reads OLD and NEW from a spec on stdin separated by a line '=====')
Creates /verif/mutants/PROP/NAME.patch: a unified diff against /repo's working tree, after checking that
the mutated tree still builds. The patch header records the property and the rule expected to report it."""
import sys, os, subprocess, tempfile, shutil
prop, name, expect, fname = sys.argv[1:5]
desc = sys.argv[5] if len(sys.argv) > 5 else ""
spec = sys.stdin.read()
old, new = spec.split("\n=====\n")
old = old.strip("\n"); new = new.rstrip("\n")
if new.startswith("\n"): new = new[1:]
src = open(os.path.join("/repo", fname)).read()
if src.count(old) != 1:
    sys.exit("OLD matches %d times in %s" % (src.count(old), fname))
tmp = tempfile.mkdtemp(prefix="mkmut_")
try:
    subprocess.check_call("cd /repo && git ls-files -z | grep -zv _test.go$ | xargs -0 cp --parents -t %s" % tmp, shell=True)
    open(os.path.join(tmp, fname), "w").write(src.replace(old, new))
    env = dict(os.environ, GOFLAGS="-mod=mod", GOPROXY="off", GOSUMDB="off", GOTOOLCHAIN="local", GOWORK="off")
    r = subprocess.run(["go", "build", "."], cwd=tmp, env=env, capture_output=True, text=True)
    if r.returncode != 0:
        sys.exit("mutant does not build:\n" + r.stderr)
    d = subprocess.run(["diff", "-u", "--label", "a/" + fname, "--label", "b/" + fname, os.path.join("/repo", fname), os.path.join(tmp, fname)], capture_output=True, text=True).stdout
    os.makedirs("/verif/mutants/" + prop, exist_ok=True)
    with open("/verif/mutants/%s/%s.patch" % (prop, name), "w") as f:
        f.write("# property: %s\n# expect: %s\n# what: %s\n" % (prop, expect, desc))
        f.write(d)
    print("wrote /verif/mutants/%s/%s.patch" % (prop, name))
finally:
    shutil.rmtree(tmp, ignore_errors=True)
