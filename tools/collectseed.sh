#!/bin/bash
# collectseed.sh <worktree> <seed-id>: copies <worktree>/_seed to /verif/seeded/<seed-id>, removes the worktree, runs all checks on the seed.
wt=$1; id=$2
mkdir -p /verif/seeded/$id && cp $wt/_seed/* /verif/seeded/$id/ && git -C /repo worktree remove --force $wt
/verif/tools/runseed.sh $id 2>&1 | grep -v "0 violation" | cut -c1-240 | head -30
