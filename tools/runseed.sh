#!/bin/bash
# runseed.sh <seed-id> [props...]: applies a seeded change to /repo, runs the given (default: all claimed) quick checks, undoes it.
id=$1; shift
props="$@"
[ -z "$props" ] && props=$(python3 -c "import json;print(' '.join(c['property_id'] for c in json.load(open('/verif/MANIFEST.json'))['checks']))")
git -C /repo apply /verif/seeded/$id/patch.diff || exit 2
for p in $props; do /verif/bin/shmlint -prop $p -no-evidence 2>&1 | grep -E "^\s+R[0-9]|VIOLATION|ERROR" | cut -c1-200; done
git -C /repo checkout -- .
git -C /repo status --short | head -3
