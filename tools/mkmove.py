#!/usr/bin/env python3
"""mkmove.py NAME "desc" SRC:FUNC[,FUNC..]->DST ... — behaviour-preserving variant that moves top-level functions/methods to other
(new or existing) files of the package. FUNC is the text after `func ` up to the opening parenthesis of the parameter list,
e.g. `(q *queue) put` or `handlePolling`. Imports are fixed up by iterating on compiler errors."""
import sys, os, re, subprocess, tempfile, shutil
name, desc = sys.argv[1:3]
tmp = tempfile.mkdtemp(prefix="mkmove_")
env = dict(os.environ, GOFLAGS="-mod=mod", GOPROXY="off", GOSUMDB="off", GOTOOLCHAIN="local", GOWORK="off")
try:
    subprocess.check_call("cd /repo && git ls-files -z | xargs -0 cp --parents -t %s" % tmp, shell=True)
    touched = set()
    for spec in sys.argv[3:]:
        left, dst = spec.split("->")
        src, funcs = left.split(":", 1)
        text = open(os.path.join(tmp, src)).read()
        m = re.search(r"(?s)\nimport \((.*?)\n\)", text)
        imports = m.group(1) if m else ""
        lic = text[:text.index("package ")]
        moved = []
        for fn in funcs.split(","):
            pat = re.compile(r"(?ms)^((?://[^\n]*\n)*)func " + re.escape(fn) + r"\(.*?^}\n")
            mm = pat.search(text)
            if not mm:
                sys.exit("function not found: %s in %s" % (fn, src))
            moved.append(mm.group(0))
            text = text[:mm.start()] + text[mm.end():]
        open(os.path.join(tmp, src), "w").write(text)
        dpath = os.path.join(tmp, dst)
        if os.path.exists(dpath):
            d = open(dpath).read() + "\n" + "\n".join(moved)
        else:
            d = lic + "package shmipc\n\nimport (" + imports + "\n)\n\n" + "\n".join(moved)
        open(dpath, "w").write(d)
        touched.update([src, dst])
    for _ in range(30):
        r = subprocess.run(["go", "build", "."], cwd=tmp, env=env, capture_output=True, text=True)
        if r.returncode == 0:
            break
        fixed = False
        for line in r.stderr.splitlines():
            m = re.match(r"\./([^:]+):(\d+):\d+: \"([^\"]+)\" imported( as \w+)? and not used", line)
            if m:
                f, ln = os.path.join(tmp, m.group(1)), int(m.group(2))
                lines = open(f).read().split("\n")
                del lines[ln - 1]
                open(f, "w").write("\n".join(lines))
                fixed = True
                break
        if not fixed:
            sys.exit("variant does not build:\n" + r.stderr)
    subprocess.run(["gofmt", "-w"] + [os.path.join(tmp, t) for t in touched], env=env)
    r = subprocess.run(["go", "build", "."], cwd=tmp, env=env, capture_output=True, text=True)
    if r.returncode != 0:
        sys.exit("variant does not build after gofmt:\n" + r.stderr)
    out = ""
    for t in sorted(touched):
        a = os.path.join("/repo", t)
        args = ["diff", "-u", "-N", "--label", "a/" + t, "--label", "b/" + t, a if os.path.exists(a) else "/dev/null", os.path.join(tmp, t)]
        out += subprocess.run(args, capture_output=True, text=True).stdout
    with open("/verif/benign/%s.patch" % name, "w") as f:
        f.write("# benign: behaviour-preserving variant; every check must stay silent\n# what: %s\n" % desc)
        f.write(out)
    print("wrote /verif/benign/%s.patch (%d lines)" % (name, out.count("\n")))
finally:
    shutil.rmtree(tmp, ignore_errors=True)
